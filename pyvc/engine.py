"""The verifier: extraction of the real functions, symbolic execution against sidecar contracts,
generation of named obligations."""
import ast
import hashlib
import os
import time
import z3
from .state import *  # noqa
from .vals import *   # noqa
from .registry import Registry, clause_text, clause_active, clause_tags
from .expr import ExprMixin
from .stmt import StmtMixin
from .calls import CallMixin
from .spec import SpecMixin
from .builtins import BuiltinMixin
from .witness import WitnessMixin
from .fsmodel import FsMixin, p_under

REPO = os.environ.get("VERIF_REPO", "/repo")
SRC = "src/experimaestro"


class Source:
    """parsed working-tree sources (re-read on every run)"""
    def __init__(self, repo=None):
        self.repo = repo or REPO
        self.trees = {}

    def tree(self, rel):
        if rel not in self.trees:
            path = os.path.join(self.repo, SRC, rel)
            with open(path) as f:
                txt = f.read()
            self.trees[rel] = (ast.parse(txt), txt)
        return self.trees[rel][0]

    def find(self, rel, qualname):
        """locate a (possibly nested) def/class by dotted qualified name"""
        node = self.tree(rel)
        for part in qualname.split("."):
            nxt = None
            # typing stubs (`@overload def f(...): ...`) are not the function: skip them
            def is_stub(x):
                return any((isinstance(d, ast.Name) and d.id == "overload") or (isinstance(d, ast.Attribute) and d.attr == "overload")
                           for d in getattr(x, "decorator_list", []))
            for x in ast.walk(node):
                if is_stub(x):
                    continue
                if x is node:
                    continue
                if isinstance(x, (ast.ClassDef, ast.FunctionDef, ast.AsyncFunctionDef)) and x.name == part:
                    nxt = x
                    break
            if nxt is None:
                return None
            node = nxt
        return node

    def text_hash(self, node):
        return hashlib.sha256(ast.dump(node).encode()).hexdigest()[:16]


def strip(fn):
    """drop docstring (annotations are never evaluated by the engine)"""
    body = list(fn.body)
    if body and isinstance(body[0], ast.Expr) and isinstance(body[0].value, ast.Constant) and isinstance(body[0].value.value, str):
        body = body[1:] or [ast.Pass(lineno=fn.lineno)]
    fn.body = body
    return fn


def decorators(fn):
    out = []
    for d in fn.decorator_list:
        if isinstance(d, ast.Name): out.append(d.id)
        elif isinstance(d, ast.Attribute): out.append(d.attr)
        elif isinstance(d, ast.Call): out.append(getattr(d.func, "id", getattr(d.func, "attr", "?")))
    return out


class Engine(FsMixin, ExprMixin, StmtMixin, CallMixin, SpecMixin, BuiltinMixin, WitnessMixin):
    def __init__(self, reg: Registry, source: Source = None, prop=None):
        self.reg = reg
        self.src = source or Source()
        self.prop = prop
        self.functions = {}       # key -> (FunctionDef, class name)   real code available for inlining / proof
        self.properties = {}      # 'Class.attr' -> True (property getter; body in functions or contract)
        self.inline_keys = set()
        self.mutex_types = {"Mutex"}
        self.strict_fields = False
        self.merging = True
        self.interference = None
        self.frontier = z3.Int("FRONTIER")
        self.frontier_blocks = []
        self.glob_hooks = []
        self.lambdas = {}
        self._iter_start = None
        self.missing = {}
        self._consts_done = set()
        self._nsent = 0
        self.fs_write_hooks = []
        self.extra_axioms = []
        self._fresh_range = None
        self._parse_cache = {}
        self._spec_ctx = None
        self.spec_depth = 0
        self.depth = 0
        self.current_class = None
        self.fsolver = z3.Solver()
        self.fsolver.set("timeout", 1000)
        self.reset()

    def reset(self):
        self.obligations = []
        self.global_facts = []
        self._gf_ids = set()
        self.trivial = []
        self.undecided_paths = []
        self.dropped = set()
        self.comp_info = {}
        self.glob_results = []
        self.seq_facts = {}     # name of a sequence constant -> [fn(k) -> z3 Bool]: element-wise facts, instantiated on access
        self.sorted_info = {}
        self.loop_keys_seen = set()
        self._starred_calls = set()
        self.branch_cov = {}
        self._rel_of = getattr(self, '_rel_of', {})
        self.covered_lines = set()
        self.fn_locals = set()
        self._closed_ok = set()
        self.seq_lemmas = {}
        self.nstmts = self.nfeas = self.nawaits = 0
        self.entry_state = None
        self.loops = {}
        self.local_types = {}
        self.track_writes = set()
        self.effect_guards = {}
        self.current_key = None
        self._guard_done = set()
        self.loop_ordinals = {}

    # ------------------------------------------------------------------ loading real code
    def check_closed_world(self, base):
        """the registered subclasses of a closed class must be exactly the classes of the tree under check that derive
        from it (test code excluded); otherwise the split would silently ignore a class"""
        if base in self._closed_ok:
            return
        import glob as _glob
        bases = {}
        for path in _glob.glob(os.path.join(self.src.repo, SRC, "**", "*.py"), recursive=True):
            if os.sep + "tests" + os.sep in path:
                continue
            try:
                tree = ast.parse(open(path).read())
            except (OSError, SyntaxError):
                continue
            for node in ast.walk(tree):
                if isinstance(node, ast.ClassDef):
                    bases.setdefault(node.name, set()).update(b.id if isinstance(b, ast.Name) else (b.attr if isinstance(b, ast.Attribute) else "?") for b in node.bases)
        found, changed = set(), True
        while changed:
            changed = False
            for c, bs in bases.items():
                if c not in found and (base in bs or bs & found):
                    found.add(c); changed = True
        declared = set(self.reg.closed[base])
        if found != declared:
            raise Unsupported(f"closed-world assumption on {base} does not match the source: declared {sorted(declared)}, found {sorted(found)}")
        self._closed_ok.add(base)

    def load(self, key, rel, qualname=None, inline=False, prop=False):
        """make the real function 'key' (Class.method or function) available"""
        qualname = qualname or key
        try:
            node = self.src.find(rel, qualname)
        except (OSError, SyntaxError) as e:
            node = None
        if node is None:
            self.missing[key] = f"function {qualname} not found in {rel}"
            return None
        node = strip(node)
        self.module_consts(rel)
        cls = qualname.rsplit(".", 1)[0].split(".")[-1] if "." in qualname else None
        self.functions[key] = (node, cls)
        self._rel_of[key] = rel
        decs = decorators(node)
        if prop or "property" in decs or "cached_property" in decs:
            self.properties[key] = True
        if inline:
            self.inline_keys.add(key)
        return node

    def module_consts(self, rel):
        """module-level `NAME = <literal>` and `NAME = object()` of the file become constants (sentinels are distinct objects)"""
        if rel in self._consts_done:
            return
        self._consts_done.add(rel)
        todo = [(None, n_) for n_ in self.src.tree(rel).body]
        for cls_, n_ in list(todo):
            if isinstance(n_, ast.ClassDef):       # class-level constants: ClassName.ATTR
                todo += [(n_.name, m_) for m_ in n_.body]
        for cls_, node in todo:
            if isinstance(node, ast.Assign) and len(node.targets) == 1 and isinstance(node.targets[0], ast.Name):
                nm = node.targets[0].id if cls_ is None else f"{cls_}.{node.targets[0].id}"
                if nm in self.reg.consts:
                    continue
                v = node.value
                if isinstance(v, ast.Constant) and isinstance(v.value, (bool, int, str, bytes)) or (isinstance(v, ast.Constant) and v.value is None):
                    kind = "none" if v.value is None else type(v.value).__name__
                    self.reg.consts[nm] = (kind, v.value)
                elif isinstance(v, ast.Call) and isinstance(v.func, ast.Name) and v.func.id == "object" and not v.args:
                    self._nsent += 1
                    self.reg.consts[nm] = ("term", V(RefV(-900000 - self._nsent), "object"))

    def loop_contract(self, key):
        return self.loops.get(key, {})

    # ------------------------------------------------------------------ verification of one function
    def initial_state(self, c, fn):
        st = State()
        for ax in path_axioms() + int_str_axioms():
            st.assume(ax)
        for ax in self.enum_axioms(st):
            st.assume(ax)
        a = fn.args
        params = [x.arg for x in a.posonlyargs + a.args + a.kwonlyargs]
        types = c.get("types", {})
        binds = {}
        for p in params:
            v = V(z3.Const("arg_" + p, Val), types.get(p))
            self.assume_type(st, v)
            self.old_object(st, v.t)
            st.env[p] = v
            binds[p] = v
        if a.vararg:
            v = V(z3.Const("arg_" + a.vararg.arg, Val), types.get(a.vararg.arg, "tuple"))
            self.assume_type(st, v); self.old_object(st, v.t)
            st.env[a.vararg.arg] = v; binds[a.vararg.arg] = v
        for p, ty_ in c.get("closure", {}).items():      # free variables of a nested function: bound like parameters
            v = V(z3.Const("arg_" + p, Val), ty_)
            self.assume_type(st, v); self.old_object(st, v.t)
            st.env[p] = v; binds[p] = v
        for g, (ty, init) in c.get("ghost", {}).items():
            gv = V(z3.Const("ghost_" + g, Val), ty)
            self.assume_type(st, gv)
            st.ghost[g] = gv
            binds[g] = gv
        # every object reachable from the pre-state heap was allocated before the call
        o = z3.Int("o!pre")
        for f in c.get("ref_fields", []):
            arr = st.field(f)
            st.assume(qforall([o], z3.Implies(Val.is_RefV(z3.Select(arr, o)), vr(z3.Select(arr, o)) < self.frontier), patterns=[z3.Select(arr, o)]))
        st.assume(self.frontier > 0)
        st.front = self.frontier
        for ax in self.extra_axioms:
            st.assume(ax)
        return st, binds

    def verify(self, key, name=None):
        """symbolically execute the real function `key` against its contract; returns a report dict"""
        t0 = time.time()
        self.reset()
        c = self.reg.contracts[key]
        if key in self.missing or key not in self.functions:
            return dict(key=key, name=name or key, line=0, hash=None, error=self.missing.get(key, "function not loaded"),
                        obligations=[], trivial=[], undecided=[])
        fn, cls = self.functions[key]
        self.current_class = cls
        self.loops = c.get("loops", {})
        self.interference = c.get("interference")
        self.track_writes = set(c.get("track_writes", []))
        self.local_types = dict(c.get("locals", {}))
        # names bound somewhere in the function: reading one before it is bound raises UnboundLocalError
        self.fn_locals = {x.id for x in ast.walk(fn) if isinstance(x, ast.Name) and isinstance(x.ctx, ast.Store)}
        self.covered_lines = set()
        self.branch_cov = {}
        self.loop_keys_seen = set()
        self.merging = c.get("merge", True)
        self.effect_guards = c.get("effect_guards", {})
        self.current_key = key
        # ordinal of each for-loop among the loops of the function with the same target text (source order)
        self.loop_ordinals, seen = {}, {}
        for node in sorted((x for x in ast.walk(fn) if isinstance(x, (ast.For, ast.AsyncFor))), key=lambda x: (x.lineno, x.col_offset)):
            t = ast.unparse(node.target)
            seen[t] = seen.get(t, 0) + 1
            self.loop_ordinals[id(node)] = seen[t]
        st, binds = self.initial_state(c, fn)
        pre = st.copy()
        for r in c.get("requires", []):
            st.assume(self.spec(st, pre, clause_text(r), binds))
        report = dict(key=key, name=name or key, line=fn.lineno, hash=self.src.text_hash(fn), error=None)
        if not self.feasible(st):
            report["error"] = "precondition unsatisfiable (vacuous contract)"
            report["obligations"] = []
            return report
        self.entry_state = st.copy()
        entry = self.entry_state
        try:
            outs = self.block(st, fn.body)
        except Unsupported as e:
            report["error"] = f"unsupported: {e}"
            outs = []
        except RecursionError:
            report["error"] = "recursion limit in symbolic execution"
            outs = []
        kinds = {}
        for r in outs:
            if r.kind == "undecided":
                kinds["undecided"] = kinds.get("undecided", 0) + 1
                continue
            self.check_outcome(c, key, entry, binds, r)
            if r.kind in ("normal", "return"):
                # clauses that may mention the locals of the function (their final values)
                lb = dict(binds); lb.update({k_: v_ for k_, v_ in r.st.env.items() if isinstance(v_, V)})
                lb["result"] = r.val if r.val is not None else V(NONE, "none")
                for p_ in c.get("ensures_locals", []):
                    if clause_active(p_, self.prop):
                        try:
                            goal_ = self.spec(r.st, entry, clause_text(p_), lb)
                        except Unsupported as e_:
                            if "unknown name" in str(e_):
                                continue        # the clause speaks about locals of another branch
                            raise
                        self.oblige(f"post(locals) {key}: {clause_text(p_)}", "post", goal_, r.st)
            kk = r.kind if r.kind != "raise" else "raise:" + str(r.exc)
            kinds[kk] = kinds.get(kk, 0) + 1
        # the pre-state heap only holds objects allocated before the call
        fields = set()
        for ob in self.obligations:
            fields |= ob.st.reads
        for f in sorted(fields):
            fact = self.alloc_axiom(None, f, z3.Const("H0_" + f, field_sort(f)), self.frontier)
            if fact is not None:
                self.global_facts.append(fact)
        for ob in self.obligations:
            have = {f.get_id() for f in ob.pc}
            ob.pc += [f for f in self.global_facts if f.get_id() not in have]
        # a loop contract whose key matches no loop of the body (renamed loop variable, restructured loop): the sidecar no longer
        # describes this body - nothing is concluded about the function (undecided), rather than failing obligations for lack
        # of an invariant
        all_loop_keys = set()
        ords = {}
        for x in ast.walk(fn):
            if isinstance(x, (ast.For, ast.AsyncFor)):
                k_ = ast.unparse(x.target)
                ords[k_] = ords.get(k_, 0) + 1
                all_loop_keys.update((k_, f"{k_}#{ords[k_]}"))
            elif isinstance(x, ast.While):
                all_loop_keys.update(("while", "while@" + ast.unparse(x.test)[:40]))
            elif isinstance(x, (ast.ListComp, ast.SetComp, ast.DictComp, ast.GeneratorExp)):
                for g_ in x.generators:
                    k_ = ast.unparse(g_.target)
                    all_loop_keys.update((k_, f"{k_}#1", f"{k_}#2"))
        stale = sorted(k for k in c.get("loops", {}) if k not in all_loop_keys and k not in self.loop_keys_seen)
        if stale:
            report["error"] = "the sidecar contract does not match the body: no loop for the loop contract(s) " + ", ".join(repr(k) for k in stale)
            report["obligations"] = []
            report["unreached"] = []
            report.update(trivial=[], undecided=[], outcomes=kinds, paths=len(outs))
            return report
        # statements of the function never reached with a feasible state: dead under the contract (candidates for vacuity)
        skip = set()
        for x in ast.walk(fn):
            if x is not fn and isinstance(x, (ast.FunctionDef, ast.AsyncFunctionDef, ast.ClassDef, ast.Lambda)):
                skip |= {getattr(y, "lineno", None) for y in ast.walk(x)}
        all_lines = {x.lineno for x in ast.walk(fn) if isinstance(x, ast.stmt) and x is not fn and not isinstance(x, (ast.Pass, ast.Global, ast.Nonlocal, ast.Import, ast.ImportFrom))}
        dropped_lines = {int(d.rsplit("@L", 1)[1]) for d in self.dropped if "@L" in d and d.rsplit("@L", 1)[1].isdigit()}
        unreached = sorted(l for l in all_lines - skip - self.covered_lines - dropped_lines)
        allowed = set(c.get("unreachable_ok", []))
        texts = {}
        try:
            src_lines = open(os.path.join(self.src.repo, SRC, self._rel_of.get(key, ""))).read().splitlines()
        except OSError:
            src_lines = []
        report["unreached"] = [dict(line=l, text=(src_lines[l - 1].strip() if 0 < l <= len(src_lines) else "")) for l in unreached]
        report["unreached"] = [u for u in report["unreached"] if u["text"] not in allowed]
        # `if` tests with a side that is never feasible (the test is constant under the contract): same vacuity guard
        for l, (ft, ff) in sorted(self.branch_cov.items()):
            if ft and ff:
                continue
            txt = src_lines[l - 1].strip() if 0 < l <= len(src_lines) else ""
            txt += "   [never true]" if not ft else "   [never false]"
            if txt in allowed or any(u["line"] == l for u in report["unreached"]):
                continue
            report["unreached"].append(dict(line=l, text=txt))
        report.update(obligations=self.obligations, trivial=list(self.trivial), undecided=list(self.undecided_paths), outcomes=kinds,
                      paths=len(outs), stmts=self.nstmts, awaits=self.nawaits, dropped=sorted(self.dropped),
                      symexec_s=time.time() - t0)
        return report

    def check_outcome(self, c, key, entry, binds, r):
        st = r.st
        b = dict(binds)
        if r.kind in ("normal", "return"):
            b["result"] = r.val if r.val is not None else V(NONE, "none")
            posts = c.get("ensures", [])
            mods = c.get("modifies", None)
            tag = "post"
        elif r.kind == "raise":
            xs = c.get("raises", {})
            match = None
            for exc in xs:
                if self.reg.is_exc_sub(r.exc, exc):
                    match = exc
                    break
            if match is None:
                self.oblige(f"noraise {key}: unexpected {r.exc}", "noraise", z3.BoolVal(False), st)
                return
            xc = xs[match]
            if not isinstance(xc, dict):
                xc = {"when": xc}
            when = xc.get("when", [])
            when = [when] if isinstance(when, (str, tuple)) else when
            for w in when:
                if clause_active(w, self.prop):
                    self.oblige(f"xpre {key}[{match}]: {clause_text(w)}", "xpost", self.spec(st, entry, clause_text(w), b), st)
            posts = xc.get("ensures", [])
            mods = xc.get("modifies", c.get("modifies", None))
            tag = f"xpost[{match}]"
            if r.excval is not None:
                b["excval"] = r.excval
        else:
            self.oblige(f"control {key}: {r.kind} escapes the function", "noraise", z3.BoolVal(False), st)
            return
        for p in posts:
            if clause_active(p, self.prop):
                self.oblige(f"{tag} {key}: {clause_text(p)}", "post" if tag == "post" else "xpost", self.spec(st, entry, clause_text(p), b), st,
                            info=dict(clause=clause_text(p), tag=tag))
        if mods is not None:
            self.check_frame(c, key, entry, b, st, mods)

    def on_effect(self, st, e):
        """effect-guard obligations: the guard must hold in the state in which the effect happens"""
        if self.spec_depth or not self.effect_guards:
            return
        guard = self.effect_guards.get(e.name)
        if guard is None:
            return
        # names of the function under contract (its parameters) stay visible when the effect happens inside an inlined helper
        eb = {k: v for k, v in (self.entry_state.env.items() if self.entry_state is not None else ()) if isinstance(v, V)}
        eb.update({k: v for k, v in st.env.items() if isinstance(v, V)})
        for k_, a_ in enumerate(e.args):
            eb[f"_arg{k_}"] = a_
        for g in ([guard] if isinstance(guard, (str, tuple)) else guard):
            if clause_active(g, self.prop):
                self.oblige(f"effect-guard {self.current_key}: {e.name}@L{e.lineno} requires {clause_text(g)}", "effect-guard",
                            self.spec(st, self.entry_state, clause_text(g), eb), st, e.lineno)

    def check_frame(self, c, key, entry, binds, st, mods):
        allowed = {}
        for m in mods:
            m = clause_text(m)
            if m.startswith("*."):
                allowed[m[2:]] = None
            elif m.startswith("elems(") or m.startswith("dict("):
                obj = self.spec_v(entry, entry, m[m.index("(") + 1:-1], binds)
                for f in (["$elems"] if m.startswith("elems(") else ["$dkeys", "$dmap", "$dhas"]):
                    if f not in allowed or allowed[f] is not None:
                        allowed.setdefault(f, []).append(obj)
            elif m.startswith("fs(") or m.startswith("fs_tree("):
                pv = self.spec_v(entry, entry, m[m.index("(") + 1:-1], binds)
                for f in ("$fs_kind", "$fs_text", "$fs_target"):
                    if f not in allowed or allowed[f] is not None:
                        allowed.setdefault(f, []).append(("tree" if m.startswith("fs_tree(") else "path", vp(pv.t)))
            elif m == "fs":
                for f in ("$fs_kind", "$fs_text", "$fs_target"):
                    allowed[f] = None
            else:
                objexpr, fld = m.rsplit(".", 1)
                obj = self.spec_v(entry, entry, objexpr, binds)
                if fld not in allowed or allowed[fld] is not None:
                    allowed.setdefault(fld, []).append(obj)
        written = {f for f, _ in st.writes}
        shared = set((self.interference or {}).get("shared", []))
        for f in sorted(written):
            if f == "$class" or f in shared:      # shared fields are havoc-ed at awaits: not attributable to this function
                continue
            if f in allowed and allowed[f] is None:
                continue
            if f.startswith("$fs_"):
                q = z3.Const("q!frame", PathS)
                exc = [(q != p) if k == "path" else z3.Not(p_under(q, p)) for k, p in allowed.get(f, [])]
                goal = qforall([q], z3.Implies(z3.And(*exc) if exc else z3.BoolVal(True), z3.Select(st.heap[f], q) == z3.Select(entry.field(f), q)))
                self.oblige(f"frame {key}: filesystem unchanged outside {[clause_text(m) for m in mods if clause_text(m).startswith('fs')]} ({f})", "frame", goal, st)
                continue
            if not z3.is_array(st.heap[f]) or st.heap[f].sort().domain() != Int:
                self.oblige(f"frame {key}: {f} unchanged", "frame", st.heap[f] == entry.field(f), st)
                continue
            o = z3.Int("o!frame")
            exc = [o != vr(x.t) for x in allowed.get(f, [])]
            goal = qforall([o], z3.Implies(z3.And(o < self.frontier, *exc), z3.Select(st.heap[f], o) == z3.Select(entry.field(f), o)))
            self.oblige(f"frame {key}: only {[clause_text(m) for m in mods]} may change (field {f})", "frame", goal, st,
                        info=dict(clause="__frame__" if not mods else None, tag="frame", field=f))
