"""Python builtins and methods of builtin containers, str and pathlib.Path."""
import ast
import z3
from .state import *  # noqa
from .vals import *   # noqa


def R(st, v):
    return [Res(st, v)]


class BuiltinMixin:
    # ------------------------------------------------------------------ functions
    def bi_object___new__(self, st, a, kw, n):
        ty = a[0].ty or ""
        if not ty.startswith("type:"):
            raise Unsupported("object.__new__ of a non-constant class")
        return R(st, self.alloc(st, ty[5:]))

    def bi_len(self, st, a, kw, n):
        x = a[0]; ty = base_type(x.ty)
        if ty in ("list", "set", "tuple"): return R(st, V(IntV(z3.Length(self.elems(st, x))), "int"))
        if ty == "dict": return R(st, V(IntV(z3.Length(self.dkeys(st, x))), "int"))
        if ty == "str": return R(st, V(IntV(z3.Length(vs(x.t))), "int"))
        if ty == "bytes": return R(st, V(IntV(z3.Length(vbs(x.t))), "int"))
        k = self.reg.lookup(ty, "__len__", self.reg.contracts)
        if k: return self.call_function(st, k, [x], {}, n.lineno)
        raise Unsupported(f"len of {x.ty} at line {n.lineno}")

    def bi_issubclass(self, st, a, kw, n):
        """issubclass(c, C) on a class value: ghost predicate of (class value, class name) - nothing is known about it"""
        names = self.dotted(n.args[1]) if not isinstance(n.args[1], ast.Tuple) else ",".join(self.dotted(e) or "?" for e in n.args[1].elts)
        f = z3.Function("issubclass_dyn", Val, z3.StringSort(), z3.BoolSort())
        return R(st, V(BoolV(f(a[0].t, z3.StringVal(names or "?"))), "bool"))

    def bi_isinstance(self, st, a, kw, n):
        cnode = n.args[1]
        if isinstance(cnode, ast.Name) and isinstance(st.env.get(cnode.id), V):
            # class object held in a local variable: ghost predicate (no static knowledge of the class)
            f = z3.Function("isinstance_dyn", Val, Val, z3.BoolSort())
            return R(st, V(BoolV(f(a[0].t, st.env[cnode.id].t)), "bool"))
        if isinstance(cnode, ast.Attribute) and isinstance(cnode.value, ast.Name) and isinstance(st.env.get(cnode.value.id), V):
            f = z3.Function("isinstance_dyn", Val, Val, z3.BoolSort())
            cv = self.ev1(st, cnode)
            return R(st, V(BoolV(f(a[0].t, cv.t)), "bool"))
        names = [self.dotted(e) for e in cnode.elts] if isinstance(cnode, ast.Tuple) else [self.dotted(cnode)]
        if any(x is None for x in names):
            raise Unsupported("isinstance class expression")
        names = [x.split(".")[-1] for x in names]
        return R(st, V(BoolV(self.isinstance_term(st, a[0], names)), "bool"))

    def ev_args_raw(self, n):
        return n.args

    def bi_int(self, st, a, kw, n):
        x = a[0]; ty = base_type(x.ty)
        if ty == "int": return R(st, x)
        if ty == "bool": return R(st, V(IntV(z3.If(vb(x.t), 1, 0)), "int"))
        if ty == "float":
            f = vf(x.t)      # int() truncates towards zero
            return R(st, V(IntV(z3.If(f >= 0, z3.ToInt(f), -z3.ToInt(-f))), "int"))
        if ty == "str" and self.spec_depth:
            return R(st, V(IntV(int_of_str(vs(x.t))), "int"))
        if ty == "str":
            s = vs(x.t)
            ok = st.copy(); ok.assume(is_intstr(s))
            bad = st.copy(); bad.assume(z3.Not(is_intstr(s)))
            out = []
            if self.feasible(ok): out.append(Res(ok, V(IntV(int_of_str(s)), "int")))
            if self.feasible(bad): out.append(Res(bad, None, "raise", "ValueError"))
            return out
        raise Unsupported(f"int() of {x.ty} at line {n.lineno}")

    def bi_str(self, st, a, kw, n):
        return R(st, V(StrV(self.to_str(st, a[0])), "str"))

    def bi_float(self, st, a, kw, n):
        x = a[0]; ty = base_type(x.ty)
        if ty == "float": return R(st, x)
        if ty == "int": return R(st, V(Val.FloatV(z3.ToReal(vi(x.t))), "float"))
        if ty == "str" and isinstance(n.args[0], ast.Constant) and n.args[0].value in ("-inf", "inf"):
            return R(st, V(Val.FloatV(z3.RealVal(-10**30 if n.args[0].value == "-inf" else 10**30)), "float"))
        t = x.t
        return R(st, V(Val.FloatV(z3.If(Val.is_FloatV(t), vf(t), z3.ToReal(vi(t)))), "float"))

    def bi_math_modf(self, st, a, kw, n):
        """math.modf(x) = (fractional part, integral part), both floats with the sign of x (mathematical reals)"""
        x = a[0]
        f = vf(x.t) if base_type(x.ty) == "float" else z3.If(Val.is_FloatV(x.t), vf(x.t), z3.ToReal(vi(x.t)))
        ip = z3.ToReal(z3.If(f >= 0, z3.ToInt(f), -z3.ToInt(-f)))
        return R(st, self.new_list(st, self.mkseq([V(Val.FloatV(f - ip), "float"), V(Val.FloatV(ip), "float")]), "tuple[float]"))

    def bi_struct_pack(self, st, a, kw, n):
        """struct.pack for the two formats used by the hash stream (assumed: injective; '!q' raises outside 64 bits)"""
        fmt = z3.simplify(vs(a[0].t))
        if not z3.is_string_value(fmt):
            raise Unsupported("struct.pack with a computed format")
        x = a[1]
        if fmt.as_string() == "!d":
            if base_type(x.ty) == "float":
                return R(st, V(Val.BytesV(pack_d(vf(x.t))), "bytes"))
            if base_type(x.ty) == "int":
                return R(st, V(Val.BytesV(pack_d_int(vi(x.t))), "bytes"))
            return R(st, V(Val.BytesV(z3.If(Val.is_FloatV(x.t), pack_d(vf(x.t)), pack_d_int(vi(x.t)))), "bytes"))
        if fmt.as_string() == "!q":
            n_ = z3.If(Val.is_BoolV(x.t), z3.If(vb(x.t), 1, 0), vi(x.t))
            rng = z3.And(n_ >= -(2 ** 63), n_ < 2 ** 63)
            return self.split(st, rng, lambda s: R(s, V(Val.BytesV(pack_q(n_)), "bytes")), lambda s: [Res(s, None, "raise", "struct.error")])
        raise Unsupported(f"struct.pack format {fmt}")

    def bi_bool(self, st, a, kw, n):
        return R(st, V(BoolV(self.truth(st, a[0])), "bool"))

    def bi_id(self, st, a, kw, n):
        return R(st, V(IntV(py_id(vr(a[0].t))), "int"))

    def bi_max(self, st, a, kw, n):
        return self.minmax(st, a, n, True)

    def bi_min(self, st, a, kw, n):
        return self.minmax(st, a, n, False)

    def minmax(self, st, a, n, is_max):
        if len(a) < 2:
            raise Unsupported("max/min of an iterable")
        self.need_int(st, a, n.lineno)
        cur = vi(a[0].t)
        for x in a[1:]:
            y = vi(x.t)
            cur = z3.If(y > cur, y, cur) if is_max else z3.If(y < cur, y, cur)
        return R(st, V(IntV(cur), "int"))

    def bi_list(self, st, a, kw, n):
        if not a:
            return R(st, self.new_list(st, z3.Empty(SeqV), "list"))
        it = self.iter_seq(st, a[0], n)
        return R(st, self.new_list(st, self.iter_to_seq(st, it), "list" + (f"[{elem_type(a[0].ty)}]" if elem_type(a[0].ty) else "")))

    def bi_tuple(self, st, a, kw, n):
        return self.bi_list(st, a, kw, n)

    def iter_to_seq(self, st, it):
        if it.src is not None and base_type(it.src.ty) in ("list", "tuple", "set"):
            return self.elems(st, it.src)
        if it.src is not None and base_type(it.src.ty) == "dict":
            return self.dkeys(st, it.src)
        res = z3.Const(fresh_name("its"), SeqV)
        k = fresh_int("k")
        item = it.item(k)
        if isinstance(item, tuple):
            raise Unsupported("materialising an iterator of tuples")
        st.assume(z3.Length(res) == it.length)
        st.assume(qforall([k], z3.Implies(z3.And(0 <= k, k < it.length), res[k] == item.t), patterns=[res[k]]))
        return res

    def bi_set(self, st, a, kw, n):
        if not a:
            return R(st, self.new_list(st, z3.Empty(SeqV), "set"))
        src = a[0]
        res = z3.Const(fresh_name("set"), SeqV)
        seq = self.elems(st, src)
        x = fresh_val("x")
        st.assume(qforall([x], z3.Contains(res, z3.Unit(x)) == z3.Contains(seq, z3.Unit(x))))
        # consequences stated explicitly: every source element is a member; every member is a source element
        j = fresh_int("j")
        idx = z3.Function(fresh_name("sidx"), Int, Int)
        st.assume(qforall([j], z3.Implies(z3.And(0 <= j, j < z3.Length(seq)), z3.Contains(res, z3.Unit(seq[j]))), patterns=[seq[j]]))
        st.assume(qforall([j], z3.Implies(z3.And(0 <= j, j < z3.Length(res)),
                                           z3.And(0 <= idx(j), idx(j) < z3.Length(seq), res[j] == seq[idx(j)])), patterns=[res[j]]))
        return R(st, self.new_list(st, res, "set" + (f"[{elem_type(src.ty)}]" if elem_type(src.ty) else "")))

    def bi_dict(self, st, a, kw, n):
        if a or kw:
            raise Unsupported("dict(...) with arguments")
        return R(st, self.new_dict(st, z3.Empty(SeqV), z3.K(Val, NONE), "dict"))

    def bi_sorted(self, st, a, kw, n):
        src = a[0]
        seq = self.elems(st, src) if base_type(src.ty) != "dict" else self.dkeys(st, src)
        keyfn = None
        for k in n.keywords:
            if k.arg == "key": keyfn = k.value
        res = self.sorted_seq(st, seq, keyfn, elem_type(src.ty))
        return R(st, self.new_list(st, res, "list" + (f"[{elem_type(src.ty)}]" if elem_type(src.ty) else "")))

    def sorted_seq(self, st, seq, keyfn, ety):
        """fresh sequence that is a permutation of seq (same length, same members) — ordering facts
        are provided by the property-specific lemma functions (perm/sortedness are ghost predicates)"""
        res = z3.Const(fresh_name("sorted"), SeqV)
        x = fresh_val("x")
        st.assume(z3.Length(res) == z3.Length(seq))
        st.assume(qforall([x], z3.Contains(res, z3.Unit(x)) == z3.Contains(seq, z3.Unit(x))))
        self.sorted_info[res.decl().name()] = (seq, keyfn, ety)
        if keyfn is None:
            # adjacent order of the values themselves (uninterpreted total preorder val_le)
            # (two-index form: no arithmetic inside the trigger, no matching loop)
            j, k = fresh_int("j"), fresh_int("k")
            st.assume(qforall([j, k], z3.Implies(z3.And(0 <= j, j <= k, k < z3.Length(res)), self.key_le(V(res[j], ety), V(res[k], ety))),
                              patterns=[z3.MultiPattern(res[j], res[k])]))
            # z3 rewrites seq.nth internally, so triggers on it rarely fire: a loop over the result gets the instance
            # (i - 1, i) of this fact by hand (run_loop)
            self.seq_lemmas[res.decl().name()] = lambda a, b, res=res, ety=ety: z3.Implies(z3.And(0 <= a, a <= b, b < z3.Length(res)),
                                                                                       self.key_le(V(res[a], ety), V(res[b], ety)))
        if keyfn is not None and isinstance(keyfn, ast.Lambda):
            # adjacent order on integer keys / sort_key ghost for others
            k = fresh_int("k")
            s2 = st.copy()
            s2.env = dict(st.env); s2.env[keyfn.args.args[0].arg] = V(res[k], ety)
            ka = self.ev1(s2, keyfn.body)
            s2.env[keyfn.args.args[0].arg] = V(res[k + 1], ety)
            kb = self.ev1(s2, keyfn.body)
            st.assume(qforall([k], z3.Implies(z3.And(0 <= k, k + 1 < z3.Length(res)), self.key_le(ka, kb)), patterns=[res[k]]))
        return res

    def key_le(self, a, b):
        if base_type(a.ty) == "int":
            return vi(a.t) <= vi(b.t)
        le = z3.Function("val_le", Val, Val, z3.BoolSort())
        return le(a.t, b.t)

    def bi_hasattr(self, st, a, kw, n):
        f = z3.Function("has_attr", Val, z3.StringSort(), z3.BoolSort())
        return R(st, V(BoolV(f(a[0].t, vs(a[1].t))), "bool"))

    def bi_getattr(self, st, a, kw, n):
        name = n.args[1]
        if isinstance(name, ast.Constant):
            rs = self.getattr(st, a[0], name.value, n.lineno)
            return rs
        # computed attribute name: ghost function of (object, name); default argument ignored (declared parameters always exist)
        f = z3.Function("getattr_dyn", Val, z3.StringSort(), Val)
        return R(st, V(f(a[0].t, vs(a[1].t)), None))

    def bi_all(self, st, a, kw, n):
        """all(xs): every element is truthy (a fresh boolean defined by a quantified fact)"""
        it = self.iter_seq(st, a[0], n)
        k = fresh_int("k")
        item = it.item(k)
        if isinstance(item, tuple):
            raise Unsupported("all() over tuples")
        res = z3.Bool(fresh_name("all"))
        st.assume(res == qforall([k], z3.Implies(z3.And(0 <= k, k < it.length), self.truth(st, item))), definitional=True)
        return R(st, V(BoolV(res), "bool"))

    def bi_Path(self, st, a, kw, n):
        x = a[0]; ty = base_type(x.ty)
        if ty == "Path": return R(st, x)
        if ty == "str": return R(st, V(Val.PathV(p_of_str(vs(x.t))), "Path"))
        t = x.t
        return R(st, V(Val.PathV(z3.If(Val.is_PathV(t), vp(t), p_of_str(vs(t)))), "Path"))

    def bi_copy(self, st, a, kw, n):
        """copy.copy: fresh object of the same class with the same field values (shallow)"""
        return R(st, self.shallow_copy(st, a[0]))

    def shallow_copy(self, st, x):
        cls = base_type(x.ty)
        if cls not in self.reg.classes:
            raise Unsupported(f"copy of {x.ty}")
        new = self.alloc(st, cls, x.ty)
        for c in self.reg.mro(cls):
            for f in self.reg.classes.get(c, {}).get("fields", {}):
                st.write(f, vr(new.t), st.read(f, vr(x.t)))
        return new

    def bi_deepcopy(self, st, a, kw, n):
        """copy.deepcopy for the declared field structure of dataclass-like classes (lists of objects are
        copied element-wise through a fresh sequence of fresh objects with equal scalar fields)"""
        return R(st, self.deep_copy(st, a[0], 0))

    def deep_copy(self, st, x, depth):
        cls = base_type(x.ty)
        if cls in ("int", "str", "bool", "float", "none") or cls in self.reg.enums:
            return x
        if depth > 3:
            raise Unsupported("deepcopy depth")
        if cls in ("list",):
            ety = elem_type(x.ty)
            seq = self.elems(st, x)
            res = z3.Const(fresh_name("dc"), SeqV)
            k = fresh_int("k")
            st.assume(z3.Length(res) == z3.Length(seq))
            if ety in self.reg.classes and ety not in self.reg.enums:
                # fresh, pairwise distinct objects with equal (scalar) fields
                # block allocation: element k of the copy lives at address base + k
                base = fresh_int("dcbase")
                st.assume(base == st.front)
                st.front = base + z3.Length(seq)
                st.nalloc += 1
                addr = lambda j: base + j   # noqa
                st.assume(qforall([k], z3.Implies(z3.And(0 <= k, k < z3.Length(seq)), res[k] == RefV(base + k)), patterns=[res[k]]))
                for c in self.reg.mro(ety):
                    for f, ft in self.reg.classes.get(c, {}).get("fields", {}).items():
                        if base_type(ft) not in ("int", "str", "bool", "float"):
                            raise Unsupported(f"deepcopy of nested object field {ety}.{f}")
                        arr = st.field(f)
                        newarr = z3.Const(fresh_name("H_" + f), field_sort(f))
                        o = fresh_int("o")
                        st.assume(qforall([k], z3.Implies(z3.And(0 <= k, k < z3.Length(seq)),
                                  z3.Select(newarr, addr(k)) == z3.Select(arr, vr(seq[k]))), patterns=[addr(k)]))
                        st.assume(qforall([o], z3.Implies(z3.Or(o < base, o >= base + z3.Length(seq)), z3.Select(newarr, o) == z3.Select(arr, o)), patterns=[z3.Select(newarr, o)]))
                        st.heap[f] = newarr
                        st.writes.append((f, "fresh"))
            else:
                st.assume(res == seq)
            return self.new_list(st, res, x.ty)
        if cls in self.reg.classes:
            new = self.alloc(st, cls, x.ty)
            for c in self.reg.mro(cls):
                for f, ft in self.reg.classes.get(c, {}).get("fields", {}).items():
                    fv = V(st.read(f, vr(x.t)), ft)
                    cv = self.deep_copy(st, fv, depth + 1)
                    st.write(f, vr(new.t), cv.t)
            return new
        raise Unsupported(f"deepcopy of {x.ty}")

    # ------------------------------------------------------------------ list / set / dict methods
    def m_list_append(self, st, recv, a, kw, lineno):
        old = self.elems(st, recv)
        ns = z3.Const(fresh_name("app"), SeqV)
        k = fresh_int("k")
        st.assume(ns == z3.Concat(old, z3.Unit(a[0].t)), definitional=True)
        # consequences stated explicitly (sequence reasoning under quantifiers is weak in the solvers)
        st.assume(z3.Length(ns) == z3.Length(old) + 1, definitional=True)
        st.assume(ns[z3.Length(old)] == a[0].t, definitional=True)
        st.assume(qforall([k], z3.Implies(z3.And(0 <= k, k < z3.Length(old)), ns[k] == old[k]), patterns=[ns[k]]), definitional=True)
        st.write("$elems", vr(recv.t), ns)
        return R(st, V(NONE, "none"))

    def m_list_extend(self, st, recv, a, kw, lineno):
        it = self.iter_seq(st, a[0])
        st.write("$elems", vr(recv.t), z3.Concat(self.elems(st, recv), self.iter_to_seq(st, it)))
        return R(st, V(NONE, "none"))

    def m_list_remove(self, st, recv, a, kw, lineno):
        """l.remove(x): the first occurrence of x is taken out (ValueError when absent)"""
        seq = self.elems(st, recv)
        has = z3.Contains(seq, z3.Unit(a[0].t))
        ok = st.copy(); ok.assume(has)
        bad = st.copy(); bad.assume(z3.Not(has))
        out = []
        if self.feasible(ok):
            k = z3.IndexOf(seq, z3.Unit(a[0].t), 0)
            res = z3.Concat(z3.SubSeq(seq, 0, k), z3.SubSeq(seq, k + 1, z3.Length(seq) - k - 1))
            ok.write("$elems", vr(recv.t), res)
            out.append(Res(ok, V(NONE, "none")))
        if self.feasible(bad):
            out.append(Res(bad, None, "raise", "ValueError"))
        return out

    def m_str_replace(self, st, recv, a, kw, lineno):
        """s.replace(a, b): uninterpreted string of its arguments (identity when a does not occur)"""
        f = z3.Function("str_replace", z3.StringSort(), z3.StringSort(), z3.StringSort(), z3.StringSort())
        r = f(vs(recv.t), vs(a[0].t), vs(a[1].t))
        st.assume(z3.Implies(z3.Not(z3.Contains(vs(recv.t), vs(a[0].t))), r == vs(recv.t)))
        return R(st, V(StrV(r), "str"))

    def bi_os_fsdecode(self, st, a, kw, n):
        return R(st, V(a[0].t, "str") if base_type(a[0].ty) == "str" else V(StrV(z3.Function("fsdecode", Val, z3.StringSort())(a[0].t)), "str"))

    def m_list_pop(self, st, recv, a, kw, lineno):
        if a:
            raise Unsupported("list.pop(i)")
        seq = self.elems(st, recv); n = z3.Length(seq)
        ok = st.copy(); ok.assume(n > 0)
        bad = st.copy(); bad.assume(n == 0)
        out = []
        if self.feasible(ok):
            ok.write("$elems", vr(recv.t), z3.SubSeq(seq, 0, n - 1))
            out.append(Res(ok, V(seq[n - 1], elem_type(recv.ty))))
        if self.feasible(bad):
            out.append(Res(bad, None, "raise", "IndexError"))
        return out

    def m_list_sort(self, st, recv, a, kw, lineno):
        keyfn = kw.get("$keynode")
        seq = self.elems(st, recv)
        st.write("$elems", vr(recv.t), self.sorted_seq(st, seq, None, elem_type(recv.ty)))
        return R(st, V(NONE, "none"))

    def m_str_rsplit(self, st, recv, a, kw, lineno):
        """s.rsplit(sep, n): a fresh list of at least one string (content uninterpreted: ghost of the arguments)"""
        f = z3.Function("str_rsplit", z3.StringSort(), Val, SeqV)
        seq = f(vs(recv.t), a[0].t if a else NONE)
        st.assume(z3.Length(seq) >= 1)
        if len(a) > 1 and base_type(a[1].ty) == "int":
            st.assume(z3.Length(seq) <= vi(a[1].t) + 1)
        j = fresh_int("j")
        st.assume(qforall([j], z3.Implies(z3.And(0 <= j, j < z3.Length(seq)), Val.is_StrV(seq[j])), patterns=[seq[j]]))
        return R(st, self.new_list(st, seq, "list[str]"))

    def m_set_add(self, st, recv, a, kw, lineno):
        # the iteration order of a set is unspecified (hash order): after an insertion the enumeration sequence is an
        # arbitrary arrangement of the members, not the insertion order
        seq = self.elems(st, recv)
        has = z3.Contains(seq, z3.Unit(a[0].t))
        res = z3.Const(fresh_name("setadd"), SeqV)
        x = fresh_val("x")
        st.assume(qforall([x], z3.Contains(res, z3.Unit(x)) == z3.Or(z3.Contains(seq, z3.Unit(x)), x == a[0].t)))
        st.assume(z3.Contains(res, z3.Unit(a[0].t)))
        st.assume(z3.Length(res) == z3.If(has, z3.Length(seq), z3.Length(seq) + 1))
        st.assume(z3.Implies(z3.Length(seq) == 0, res == z3.Unit(a[0].t)))
        st.write("$elems", vr(recv.t), z3.If(has, seq, res))
        return R(st, V(NONE, "none"))

    def m_set_update(self, st, recv, a, kw, lineno):
        seq = self.elems(st, recv)
        other = self.iter_to_seq(st, self.iter_seq(st, a[0]))
        res = z3.Const(fresh_name("upd"), SeqV)
        x = fresh_val("x")
        st.assume(qforall([x], z3.Contains(res, z3.Unit(x)) == z3.Or(z3.Contains(seq, z3.Unit(x)), z3.Contains(other, z3.Unit(x)))))
        st.write("$elems", vr(recv.t), res)
        return R(st, V(NONE, "none"))

    def m_set_remove(self, st, recv, a, kw, lineno):
        seq = self.elems(st, recv)
        has = z3.Contains(seq, z3.Unit(a[0].t))
        ok = st.copy(); ok.assume(has)
        bad = st.copy(); bad.assume(z3.Not(has))
        out = []
        if self.feasible(ok):
            res = z3.Const(fresh_name("rem"), SeqV)
            x = fresh_val("x")
            ok.assume(qforall([x], z3.Contains(res, z3.Unit(x)) == z3.And(z3.Contains(seq, z3.Unit(x)), x != a[0].t)))
            ok.assume(z3.Length(res) == z3.Length(seq) - 1)
            ok.write("$elems", vr(recv.t), res)
            out.append(Res(ok, V(NONE, "none")))
        if self.feasible(bad):
            out.append(Res(bad, None, "raise", "KeyError"))
        return out

    def m_dict_get(self, st, recv, a, kw, lineno):
        self.touch_key(st, a[0])
        has = self.dhas(st, recv, a[0].t)
        dflt = a[1].t if len(a) > 1 else NONE
        vt = elem_type(recv.ty)
        f = self.entry_fact(st, recv, a[0], V(z3.Select(self.dmap(st, recv), a[0].t), vt))
        if f is not None:
            st.assume(z3.Implies(has, f))
        if vt:
            tmp = State(); tmp.heap = st.heap; tmp.front = st.front
            self.assume_type(tmp, V(z3.Select(self.dmap(st, recv), a[0].t), vt))
            if tmp.pc:
                st.assume(z3.Implies(has, z3.And(*tmp.pc)))     # entries of a typed dict hold values of the declared type
        if vt is None and len(a) > 1 and base_type(a[1].ty) in ("list", "dict", "set", "tuple") and not self.spec_depth:
            # d.get(k, []) on a dict of unknown value type, used as a container afterwards: the stored value must be one
            # (obligation; typically discharged from a precondition on the input format)
            cur = z3.Select(self.dmap(st, recv), a[0].t)
            isc = z3.And(Val.is_RefV(cur), st.read("$class", vr(cur)) == self.reg.classtag(base_type(a[1].ty)))
            self.oblige(f"type-safety:{base_type(a[1].ty)} value under key@L{lineno}", "type-safety", z3.Implies(has, isc), st, lineno)
            st.assume(z3.Implies(has, isc))
            return R(st, V(z3.If(has, cur, dflt), base_type(a[1].ty)))
        return R(st, self.typed(st, V(z3.If(has, z3.Select(self.dmap(st, recv), a[0].t), dflt), vt if (len(a) > 1 and a[1].ty == vt) else (("opt:" + vt) if vt else None))))

    def m_dict_setdefault(self, st, recv, a, kw, lineno):
        has = self.dhas(st, recv, a[0].t)
        cur = z3.Select(self.dmap(st, recv), a[0].t)
        val = z3.If(has, cur, a[1].t)
        self.dict_set(st, recv, a[0], V(val, a[1].ty))
        return R(st, V(val, a[1].ty))

    def m_dict_values(self, st, recv, a, kw, lineno):
        self.dict_link(st, recv)
        keys, mp = self.dkeys(st, recv), self.dmap(st, recv)
        res = z3.Const(fresh_name("vals"), SeqV)
        k = fresh_int("k")
        st.assume(z3.Length(res) == z3.Length(keys))
        st.assume(qforall([k], z3.Implies(z3.And(0 <= k, k < z3.Length(keys)), res[k] == z3.Select(mp, keys[k])), patterns=[res[k]]))
        return R(st, self.new_list(st, res, "list" + (f"[{elem_type(recv.ty)}]" if elem_type(recv.ty) else "")))

    def m_dict_update(self, st, recv, a, kw, lineno):
        raise Unsupported("dict.update")

    # ------------------------------------------------------------------ str methods
    def m_str_endswith(self, st, recv, a, kw, lineno):
        return R(st, V(BoolV(z3.SuffixOf(vs(a[0].t), vs(recv.t))), "bool"))

    def m_str_startswith(self, st, recv, a, kw, lineno):
        return R(st, V(BoolV(z3.PrefixOf(vs(a[0].t), vs(recv.t))), "bool"))

    def m_str_encode(self, st, recv, a, kw, lineno):
        return R(st, V(Val.BytesV(utf8(vs(recv.t))), "bytes"))

    def m_str_format(self, st, recv, a, kw, lineno):
        return R(st, self.str_format(st, recv, a + list(kw.values())))

    def m_str_strip(self, st, recv, a, kw, lineno):
        f = z3.Function("str_strip", z3.StringSort(), z3.StringSort())
        return R(st, V(StrV(f(vs(recv.t))), "str"))

    def m_str_lower(self, st, recv, a, kw, lineno):
        f = z3.Function("str_lower", z3.StringSort(), z3.StringSort())
        return R(st, V(StrV(f(vs(recv.t))), "str"))

    def m_str_join(self, st, recv, a, kw, lineno):
        f = z3.Function("str_join", z3.StringSort(), SeqV, z3.StringSort())
        it = self.iter_seq(st, a[0])
        return R(st, V(StrV(f(vs(recv.t), self.iter_to_seq(st, it))), "str"))

    def m_bytes_hex(self, st, recv, a, kw, lineno):
        f = z3.Function("bytes_hex", BytesS, z3.StringSort())
        return R(st, V(StrV(f(vbs(recv.t))), "str"))

    # ------------------------------------------------------------------ pathlib (pure part)
    def m_Path_with_suffix(self, st, recv, a, kw, lineno):
        return R(st, V(Val.PathV(p_with_suffix(vp(recv.t), vs(a[0].t))), "Path"))

    def m_Path_resolve(self, st, recv, a, kw, lineno):
        return R(st, V(Val.PathV(p_resolve(vp(recv.t))), "Path"))

    def m_Path_absolute(self, st, recv, a, kw, lineno):
        f = z3.Function("p_absolute", PathS, PathS)
        return R(st, V(Val.PathV(f(vp(recv.t))), "Path"))
