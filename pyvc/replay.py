"""Replay of a solver counterexample on the real code: materialise the pre-state described by the
witness as real objects, call the real function of the tree under check, evaluate the violated
contract clause (same text as the one given to the solver) on (old snapshot, new state, result)."""
import ast
import asyncio
import importlib
import json
import os
import sys
import pathlib
import traceback

REPO = os.environ.get("VERIF_REPO", "/repo")


class Obj:
    """stand-in for classes without a registered real class"""
    def __init__(self, cls):
        self.__dict__["_cls"] = cls

    def __repr__(self):
        return f"<{self._cls} {self.__dict__}>"


class StubEvent:
    _set = False
    def set(self): self._set = True
    def clear(self): self._set = False
    def is_set(self): return self._set


class StubMutex:
    def __enter__(self): return self
    def __exit__(self, *a): return False


STUBS = {"Event": StubEvent, "Mutex": StubMutex}


def real_class(path):
    mod, _, qual = path.partition(":")
    m = importlib.import_module(mod)
    o = m
    for part in qual.split("."):
        o = getattr(o, part)
    return o


class Builder:
    def __init__(self, reg, witness):
        self.reg, self.w = reg, witness
        self.objs = {}

    def cls_of(self, name):
        if name in STUBS:
            return STUBS[name]
        info = self.reg.classes.get(name, {})
        if info.get("real"):
            return real_class(info["real"])
        return None

    def build(self):
        for key, o in self.w["objects"].items():
            bt = o["class"]
            if bt == "list": self.objs[key] = []
            elif bt == "set": self.objs[key] = set()
            elif bt == "tuple": self.objs[key] = []
            elif bt == "dict": self.objs[key] = {}
            else:
                rc = self.cls_of(bt)
                if rc is None:
                    self.objs[key] = Obj(bt)
                else:
                    shadow = {}
                    for f in o.get("fields", {}):
                        a = getattr(rc, f, None)
                        if isinstance(a, property) or callable(a) and not isinstance(a, type):
                            shadow[f] = None
                    if shadow:
                        rc = type(rc.__name__, (rc,), shadow)
                    self.objs[key] = object.__new__(rc)
        for key, o in self.w["objects"].items():
            tgt = self.objs[key]
            bt = o["class"]
            if bt in ("list", "tuple"):
                tgt.extend(self.val(x) for x in o.get("elems", []))
            elif bt == "set":
                for x in o.get("elems", []):
                    tgt.add(self.val(x))
            elif bt == "dict":
                for k, v in o.get("items", []):
                    tgt[self.val(k)] = self.val(v)
            else:
                for f, v in o.get("fields", {}).items():
                    object.__setattr__(tgt, f, self.val(v)) if not isinstance(tgt, Obj) else tgt.__dict__.__setitem__(f, self.val(v))
        return {p: self.val(v) for p, v in self.w["params"].items()}

    def default_obj(self, cls, depth=0):
        rc = self.cls_of(cls)
        o = object.__new__(rc) if rc is not None else Obj(cls)
        for c in self.reg.mro(cls):
            for f, ft in self.reg.classes.get(c, {}).get("fields", {}).items():
                bt = (ft or "").replace("opt:", "").split("[")[0]
                dv = {"int": 0, "str": "", "bool": False, "float": 0.0, "list": [], "dict": {}, "set": set()}.get(bt)
                if dv is None and bt in self.reg.classes and depth < 2 and not (ft or "").startswith("opt:"):
                    dv = self.default_obj(bt, depth + 1)
                try:
                    object.__setattr__(o, f, dv) if not isinstance(o, Obj) else o.__dict__.__setitem__(f, dv)
                except Exception:
                    pass
        return o

    def val(self, v):
        if isinstance(v, dict):
            if "$ref" in v:
                k = str(v["$ref"])
                if k not in self.objs:
                    self.objs[k] = Obj("unknown")
                return self.objs[k]
            if "$default" in v:
                return self.default_obj(v["$default"])
            if "$enum" in v:
                cls, m = v["$enum"].split(".")
                rc = self.cls_of(cls)
                return getattr(rc, m) if rc else v["$enum"]
            if "$float" in v: return float(v["$float"]) if not isinstance(v["$float"], str) else 0.5
            if "$path" in v: return pathlib.Path("/nonexistent/" + v["$path"].replace("!", "_"))
            if "$bytes" in v: return b""
            return None
        return v


# ---------------------------------------------------------------------------- clause evaluation
class OldCollector(ast.NodeTransformer):
    def __init__(self):
        self.olds = []

    def visit_Call(self, node):
        if isinstance(node.func, ast.Name) and node.func.id == "old":
            self.olds.append(node.args[0])
            return ast.Subscript(value=ast.Name(id="__old", ctx=ast.Load()), slice=ast.Constant(value=len(self.olds) - 1), ctx=ast.Load())
        if isinstance(node.func, ast.Name) and node.func.id in ("forall", "exists"):
            k, lo, hi, p = node.args
            p = self.visit(p); lo = self.visit(lo); hi = self.visit(hi)
            gen = ast.GeneratorExp(elt=p, generators=[ast.comprehension(target=ast.Name(id=k.id, ctx=ast.Store()),
                  iter=ast.Call(func=ast.Name(id="range", ctx=ast.Load()), args=[lo, hi], keywords=[]), ifs=[], is_async=0)])
            return ast.Call(func=ast.Name(id="all" if node.func.id == "forall" else "any", ctx=ast.Load()), args=[gen], keywords=[])
        return self.generic_visit(node)


def helpers(reg, builder):
    ns = dict(
        implies=lambda a, b: (not a) or bool(b), iff=lambda a, b: bool(a) == bool(b), ite=lambda c, a, b: a if c else b,
        isint=lambda x: isinstance(x, int) and not isinstance(x, bool), isstr=lambda x: isinstance(x, str),
        isnone=lambda x: x is None, isbool=lambda x: isinstance(x, bool),
        isref=lambda x: x is not None and not isinstance(x, (int, str, float, bytes, bool, pathlib.PurePath)),
        ispath=lambda x: isinstance(x, pathlib.PurePath), isfloat=lambda x: isinstance(x, float),
        lookup=lambda d, k, *_: d.get(k), haskey=lambda d, k: k in d, length=lambda x: len(x),
        at=lambda s, k, *_: list(s)[k], elems=lambda x: x, seq_eq=lambda a, b: list(a) == list(b),
        distinct=lambda x: len(list(x)) == len(set(map(id, x))),
    )
    ns["Path"] = pathlib.Path
    ns.update(reg.runtime)
    for name in reg.enums:
        rc = builder.cls_of(name)
        if rc is not None:
            ns[name] = rc
    for name in reg.classes:
        if name not in ns:
            rc = None
            try:
                rc = builder.cls_of(name)
            except Exception:
                pass
            if rc is not None:
                ns[name] = rc
    return ns


def replay_witness(reg, witness, clause, tag):
    """-> dict(replayed: bool, detail...)"""
    src = os.path.join(REPO, "src")
    if src not in sys.path:
        sys.path.insert(0, src)
    b = Builder(reg, witness)
    try:
        params = b.build()
    except Exception:
        return dict(replayed=False, reason="could not materialise the pre-state: " + traceback.format_exc(limit=2))
    key = witness["function"]
    ns = helpers(reg, b)
    if clause == "__frame__":
        return replay_frame(reg, witness, params, key)
    try:
        tree = ast.parse(clause.strip(), mode="eval")
        oc = OldCollector()
        tree = ast.fix_missing_locations(oc.visit(tree))
        olds = []
        env = dict(ns); env.update(params)
        for e in oc.olds:
            olds.append(eval(compile(ast.fix_missing_locations(ast.Expression(body=e)), "<old>", "eval"), env))
    except Exception:
        return dict(replayed=False, reason="clause not evaluable in the pre-state: " + traceback.format_exc(limit=2))
    # call the real function
    meth = key.split(".")[-1]
    outcome, result, exc = "normal", None, None
    try:
        if "." in key and "self" in params:
            recv = params["self"]
            fn = getattr(type(recv), meth)
            args = {k: v for k, v in params.items()}
            result = fn(**args)
        else:
            info = reg.contracts[key]
            fn = real_class(info["real"])
            result = fn(**params)
        if asyncio.iscoroutine(result):
            result = asyncio.new_event_loop().run_until_complete(asyncio.wait_for(result, 20))
    except BaseException as e:  # noqa
        outcome, exc = "raise", e
    env = dict(ns); env.update(params); env["__old"] = olds; env["result"] = result
    want_raise = tag.startswith("xpost") or tag.startswith("xpre")
    detail = dict(outcome=outcome, exception=repr(exc) if exc else None, result=repr(result)[:200])
    if (outcome == "raise") != want_raise:
        if tag == "noraise":
            return dict(replayed=outcome == "raise", **detail)
        return dict(replayed=False, reason="real execution took another outcome than the symbolic path", **detail)
    try:
        holds = bool(eval(compile(tree, "<clause>", "eval"), env))
    except Exception:
        return dict(replayed=False, reason="clause not evaluable after the call: " + traceback.format_exc(limit=2), **detail)
    post = {}
    for p, v in params.items():
        if hasattr(v, "__dict__"):
            post[p] = {k: repr(x)[:80] for k, x in list(vars(v).items())[:12]}
    return dict(replayed=not holds, clause_value=holds, post_state=post, **detail)


def snapshot(x, seen=None, depth=0):
    """structural snapshot of everything reachable from x (attribute dicts, lists, dicts)"""
    seen = seen if seen is not None else {}
    if id(x) in seen or depth > 6:
        return ("ref", id(x))
    if isinstance(x, (int, str, float, bool, bytes, type(None), pathlib.PurePath)):
        return x
    seen[id(x)] = True
    if isinstance(x, (list, tuple)):
        return ("list", id(x), [snapshot(e, seen, depth + 1) for e in x])
    if isinstance(x, (set, frozenset)):
        return ("set", id(x), sorted(repr(snapshot(e, seen, depth + 1)) for e in x))
    if isinstance(x, dict):
        return ("dict", id(x), {repr(k): snapshot(v, seen, depth + 1) for k, v in x.items()})
    if hasattr(x, "__dict__"):
        return ("obj", id(x), type(x).__name__, {k: snapshot(v, seen, depth + 1) for k, v in vars(x).items()})
    return ("opaque", id(x))


def replay_frame(reg, witness, params, key):
    """a function whose contract says `modifies nothing`: run it and compare everything reachable from the arguments"""
    before = {p: snapshot(v) for p, v in params.items()}
    meth = key.split(".")[-1]
    try:
        recv = params["self"]
        getattr(type(recv), meth)(**params)
    except BaseException as e:  # noqa
        return dict(replayed=False, reason="real execution raised " + repr(e))
    after = {p: snapshot(v) for p, v in params.items()}
    changed = [p for p in params if before[p] != after[p]]
    return dict(replayed=bool(changed), changed_arguments=changed,
                before={p: repr(before[p])[:300] for p in changed}, after={p: repr(after[p])[:300] for p in changed})


def replay_file(path):
    """bin/check <id> --replay <file>: re-run a stored counterexample"""
    sys.path.insert(0, os.path.dirname(os.path.dirname(os.path.abspath(__file__))))
    rp = json.load(open(path))
    w = rp.get("witness")
    if not w or "params" not in w:
        print("replay file carries no concrete input:", rp.get("obligation"))
        print(json.dumps(rp, indent=1)[:2000])
        return 0
    from contracts import build
    eng = build(rp["property"])
    res = replay_witness(eng.reg, w, w.get("clause", "True"), w.get("tag", "post"))
    print(json.dumps(res, indent=1, default=str))
    return 1 if res.get("replayed") else 0
