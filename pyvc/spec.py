"""Contract language -> z3.  Clauses are Python expressions; they are evaluated by the same
expression evaluator in 'spec mode' (pure, no obligations), plus the functions below."""
import ast
import z3
from .state import *  # noqa
from .vals import *   # noqa


class SpecMixin:
    def spec(self, st, old, expr, binds):
        """-> z3 Bool"""
        v = self.spec_v(st, old, expr, binds)
        return self.truth(st, v)

    def spec_v(self, st, old, expr, binds):
        tree = self._parse_cache.get(expr)
        if tree is None:
            tree = ast.parse(expr.strip(), mode="eval").body
            for x in ast.walk(tree):
                if not hasattr(x, "lineno"):
                    x.lineno = 0
            self._parse_cache[expr] = tree
        s = st.copy()
        s.env = {**{k: v for k, v in st.env.items() if k.startswith("$")}, **binds}
        saved = self._spec_ctx
        self._spec_ctx = (old, binds)
        self.spec_depth += 1
        try:
            return self.ev1(s, tree)
        finally:
            self.spec_depth -= 1
            self._spec_ctx = saved

    def spec_call(self, st, n):
        TRACE_FUNCS = ("effect", "no_effect", "effect_count", "effect_result", "effect_arg", "effect_arg_nth", "effect_with_arg", "effect_before",
                       "at_effect", "reached_loop", "maybe_effect", "no_effect_here", "effect_here", "writes_count")
        f = n.func.id
        old, binds = self._spec_ctx
        a = n.args

        def v(node, state=None):
            return self.ev1(state or st, node)

        def B(e):
            return [Res(st, V(BoolV(e), "bool"))]

        if getattr(self, "_abstract_trace", False) and f in TRACE_FUNCS:
            # callee-internal trace term inside a clause assumed at a call site: unknown value, except for the effects the
            # callee's contract declares as propagated (one boolean per effect: it happened at least once)
            lt = getattr(self, "_local_trace", {})
            if f in ("effect", "no_effect") and isinstance(a[0], ast.Constant) and a[0].value in lt:
                return B(lt[a[0].value] if f == "effect" else z3.Not(lt[a[0].value]))
            if f in ("effect", "no_effect", "effect_before", "effect_with_arg", "reached_loop", "maybe_effect", "no_effect_here", "effect_here"):
                return B(z3.Const(fresh_name("tr"), z3.BoolSort()))
            if f in ("effect_count", "writes_count"):
                c = fresh_int("trc"); st.assume(c >= 0)
                return [Res(st, V(IntV(c), "int"))]
            return [Res(st, V(fresh_val("trv"), None))]
        if f in self.reg.specfuns:
            return [Res(st, self.reg.specfuns[f](self, st, [v(x) for x in a]))]
        if f == "forall_val":      # forall_val(k, P): P for every value k (instantiated at the keys that are accessed)
            kname = a[0].id
            kv = fresh_val("qk_" + kname)
            s2 = st.copy(); s2.env = dict(st.env); s2.env[kname] = V(kv, "str")
            body = self.truth(s2, self.ev1(s2, a[1]))
            return B(qforall([kv], z3.Implies(z3.And(key_trig(kv), Val.is_StrV(kv)), body), patterns=[key_trig(kv)]))
        if f == "forall_obj":      # forall_obj(o, Cls, P): P for every object o of class Cls that existed before the call
            oname = a[0].id; cls = a[1].id
            r = fresh_int("qo_" + oname)
            s2 = st.copy(); s2.env = dict(st.env); s2.env[oname] = V(RefV(r), cls)
            body = self.truth(s2, self.ev1(s2, a[2]))
            subs = self.reg.subclasses(cls)
            isc = z3.Or(*[old.read("$class", r) == self.reg.classtag(c) for c in subs])
            return B(qforall([r], z3.Implies(z3.And(0 <= r, r < old.front, isc), body)))
        if f == "isregular":
            return B(self.fk(st, vp(v(a[0]).t)) == 1)
        if f == "isabsent":
            return B(self.fk(st, vp(v(a[0]).t)) == 0)
        if f == "forall_keys":     # forall_keys(d, k, P): P for every key k of dict d
            d = v(a[0]); kname = a[1].id
            kv = fresh_val("qk_" + kname)
            s2 = st.copy(); s2.env = dict(st.env); s2.env[kname] = V(kv, key_type(d.ty))
            n0 = len(s2.pc)
            body = self.truth(s2, self.ev1(s2, a[2]))
            has = self.dhas(st, d, kv)
            return B(qforall([kv], z3.Implies(z3.And(key_trig(kv), has), body), patterns=[key_trig(kv)]))
        if f == "old":
            so = old.copy(); so.env = dict(st.env)      # parameters + quantifier-bound variables
            self._spec_ctx = (old, binds)
            return [Res(st, self.ev1(so, a[0]))]
        if f == "implies":
            return B(z3.Implies(self.truth(st, v(a[0])), self.truth(st, v(a[1]))))
        if f == "iff":
            return B(self.truth(st, v(a[0])) == self.truth(st, v(a[1])))
        if f == "ite":
            c = self.truth(st, v(a[0])); x, y = v(a[1]), v(a[2])
            return [Res(st, V(z3.If(c, x.t, y.t), x.ty if x.ty == y.ty else None))]
        if f in ("isint", "isstr", "isnone", "isbool", "isref", "ispath", "isfloat", "isbytes"):
            t = v(a[0]).t
            rec = {"isint": Val.is_IntV, "isstr": Val.is_StrV, "isnone": Val.is_NoneV, "isbool": Val.is_BoolV,
                   "isref": Val.is_RefV, "ispath": Val.is_PathV, "isfloat": Val.is_FloatV, "isbytes": Val.is_BytesV}[f]
            return B(rec(t))
        if f == "isclass":        # isclass(x, C): dynamic class of x is C or a subclass
            x = v(a[0]); cls = a[1].id if isinstance(a[1], ast.Name) else a[1].value
            return B(self.isinstance_term(st, x, [cls]))
        if f in ("forall", "exists"):
            # forall(k, lo, hi, P)
            kname = a[0].id
            lo, hi = vi(v(a[1]).t), vi(v(a[2]).t)
            kv = fresh_int("q_" + kname)
            s2 = st.copy(); s2.env = dict(st.env); s2.env[kname] = V(IntV(kv), "int")
            body = self.truth(s2, self.ev1(s2, a[3]))
            rng = z3.And(lo <= kv, kv < hi)
            if f == "forall":
                # trigger: the sequence accesses indexed by the bound variable (seq.nth terms), when there are any
                pats, todo, seen = [], [body], set()
                while todo:
                    x = todo.pop()
                    if x.get_id() in seen: continue
                    seen.add(x.get_id())
                    if z3.is_app(x) and x.decl().kind() == z3.Z3_OP_SEQ_NTH and x.arg(1).eq(kv):
                        pats.append(x)
                    todo.extend(x.children())
                return B(qforall([kv], z3.Implies(rng, body)))
            return B(z3.Exists([kv], z3.And(rng, body)))
        if f == "elems":
            x = v(a[0])
            return [Res(st, x)]
        if f == "at":             # at(seq, k[, type])
            x = v(a[0]); k = vi(v(a[1]).t)
            ty = (a[2].id if isinstance(a[2], ast.Name) else a[2].value) if len(a) > 2 else elem_type(x.ty)
            seq = self.dkeys(st, x) if base_type(x.ty) == "dict" else self.elems(st, x)
            return [Res(st, V(seq[k], ty))]
        if f == "length":
            x = v(a[0])
            seq = self.dkeys(st, x) if base_type(x.ty) == "dict" else self.elems(st, x)
            return [Res(st, V(IntV(z3.Length(seq)), "int"))]
        if f == "seq_eq":
            x, y = v(a[0]), v(a[1])
            return B(self.elems(st, x) == self.elems(st, y))
        if f == "haskey":
            d, k = v(a[0]), v(a[1])
            self.touch_key(st, k)
            return B(self.dhas(st, d, k.t))
        if f == "lookup":
            d, k = v(a[0]), v(a[1])
            ty = (a[2].id if isinstance(a[2], ast.Name) else a[2].value) if len(a) > 2 else elem_type(d.ty)
            if not self.has_bound_var(k.t):
                self.touch_key(st, k)
            has = self.dhas(st, d, k.t)
            val = V(z3.Select(self.dmap(st, d), k.t), ty)
            tmp = State(); tmp.heap = st.heap
            self.assume_type(tmp, val)
            if tmp.pc:
                f = z3.Implies(has, z3.And(*tmp.pc))
                st.assume(f)
                if f.get_id() not in self._gf_ids and not self.has_bound_var(f):
                    self._gf_ids.add(f.get_id()); self.global_facts.append(f)
            return [Res(st, val)]
        if f == "distinct":
            x = v(a[0]); seq = self.elems(st, x)
            qa, qb = fresh_int("da"), fresh_int("db")
            return B(qforall([qa, qb], z3.Implies(z3.And(0 <= qa, qa < qb, qb < z3.Length(seq)), seq[qa] != seq[qb])))
        if f == "unchanged":       # unchanged(obj.field) / unchanged(elems(obj))
            cur = v(a[0])
            so = old.copy(); so.env = dict(st.env)
            prev = self.ev1(so, a[0])
            if isinstance(a[0], ast.Call) and getattr(a[0].func, "id", "") == "elems":
                return B(self.elems(st, cur) == self.elems(old, prev))
            return B(cur.t == prev.t)
        if f == "monotone_true":    # a boolean field that was True on an object before the call is still True
            fld = a[0].value
            o = z3.Int(fresh_name("o"))
            return B(qforall([o], z3.Implies(z3.Select(old.field(fld), o) == TRUE, z3.Select(st.field(fld), o) == TRUE),
                             patterns=[z3.Select(st.field(fld), o)]))
        if f == "dict_unchanged":
            d = v(a[0])
            r_ = vr(d.t)
            return B(z3.And(z3.Select(st.field("$dhas"), r_) == z3.Select(old.field("$dhas"), r_),
                            z3.Select(st.field("$dmap"), r_) == z3.Select(old.field("$dmap"), r_),
                            z3.Select(st.field("$dkeys"), r_) == z3.Select(old.field("$dkeys"), r_)))
        if f == "isfresh":         # allocated during this call
            x = v(a[0])
            if self._fresh_range is not None:      # assumed postcondition of a callee: allocated during that call
                lo, hi = self._fresh_range
                return B(z3.And(Val.is_RefV(x.t), vr(x.t) >= lo, vr(x.t) < hi))
            return B(z3.And(Val.is_RefV(x.t), vr(x.t) >= self.frontier))
        if f in ("isfile", "isdir", "issymlink", "exists_path"):
            p = vp(v(a[0]).t)
            return B(self.fs_pred(st, f, p))
        if f == "fs_text":
            p = vp(v(a[0]).t)
            return [Res(st, V(StrV(z3.Select(st.field("$fs_text"), p)), "str"))]
        if f == "at_iteration_start":   # expression evaluated in the state at the beginning of the current loop iteration
            s0 = self._iter_start.copy()
            s0.env = {**st.env, **{k_: v_ for k_, v_ in self._iter_start.env.items() if isinstance(v_, V)}}    # locals as they were
            return [Res(st, self.ev1(s0, a[0]))]
        if f == "p_relative_to":
            fn = z3.Function("p_relative_to", PathS, PathS, PathS)
            return [Res(st, V(Val.PathV(fn(vp(v(a[0]).t), vp(v(a[1]).t))), "Path"))]
        if f == "reached_loop":     # the loop with this key was reached on this path (its iterations are summarised)
            key = a[0].value
            es = [e for e in st.trace if e.name == "loop:" + key or e.name.startswith("loop:" + key + "#")]
            return B(z3.Or(*[e.g() for e in es]) if es else z3.BoolVal(False))
        if f == "maybe_effect":     # the effect occurred on this path, or inside a loop that was reached (or is being executed) on this path
            name = a[0].value
            es = [e for e in st.trace if e.name == name or name in (e.inner or ())]
            return B(z3.Or(*[e.g() for e in es]) if es else z3.BoolVal(False))
        if f == "effect_arg_nth":   # effect_arg_nth('name', n, idx): idx-th argument of the n-th occurrence (0-based) on this path
            name, nth, idx = a[0].value, a[1].value, a[2].value
            es = [e for e in st.trace if e.name == name]
            if nth >= len(es) or idx >= len(es[nth].args):
                return [Res(st, V(fresh_val("noarg"), None))]
            return [Res(st, es[nth].args[idx])]
        if f == "getattr_dyn":
            fn = z3.Function("getattr_dyn", Val, z3.StringSort(), Val)
            return [Res(st, V(fn(v(a[0]).t, vs(v(a[1]).t)), None))]
        if f == "py_equal":
            fn = z3.Function("py_equal", Val, Val, z3.BoolSort())
            return B(fn(v(a[0]).t, v(a[1]).t))
        if f == "effect_with_arg":  # some occurrence of the effect has `value` as its idx-th argument
            name, idx = a[0].value, a[1].value
            x = v(a[2])
            es = [e for e in st.trace if e.name == name and idx < len(e.args)]
            return B(z3.Or(*[z3.And(e.g(), e.args[idx].t == x.t) for e in es]) if es else z3.BoolVal(False))
        if f == "effect_before":     # no occurrence of effect a after an occurrence of effect b
            na, nb = a[0].value, a[1].value
            bad = []
            for ib, eb in enumerate(st.trace):
                if eb.name != nb: continue
                for ia, ea in enumerate(st.trace):
                    if ia > ib and (ea.name == na or na in ea.inner):
                        bad.append(z3.And(ea.g(), eb.g()))
            return B(z3.Not(z3.Or(*bad)) if bad else z3.BoolVal(True))
        if f == "at_effect":        # at_effect('name', expr): expr evaluated in the state right after the last such effect
            name = a[0].value
            es = [e for e in st.trace if e.name == name and e.st is not None]
            cur = V(fresh_val("noeff"), None)
            for e in es:
                se = e.st.copy(); se.env = dict(st.env)
                k_ = next((i_ for i_, y_ in enumerate(st.trace) if y_ is e or y_.orig is e.orig), None)
                if k_ is not None:
                    se.trace = list(st.trace[:k_ + 1])      # the trace up to and including that effect (its own arguments / result are visible)
                x = self.ev1(se, a[1])
                cur = V(z3.If(e.g(), x.t, cur.t), x.ty)
            return [Res(st, cur)]
        if f == "fs_read":          # text obtained by read_text (follows one level of symlink)
            p = vp(v(a[0]).t)
            q = z3.If(self.fk(st, p) == 3, self.ftarget(st, p), p)
            return [Res(st, V(StrV(z3.Select(st.field("$fs_text"), q)), "str"))]
        if f == "effect_result" or f == "effect_arg":
            name = a[0].value
            idx = a[1].value if f == "effect_arg" else None
            cur = V(fresh_val("nores"), None)
            for e in st.trace:
                if e.name != name: continue
                x = e.res if f == "effect_result" else (e.args[idx] if idx < len(e.args) else None)
                if x is None: continue
                cur = V(z3.If(e.g(), x.t, cur.t), x.ty)
            return [Res(st, cur)]
        if f == "writes_count":     # number of explicit assignments to the named field on this path
            name = a[0].value
            if self.merging:
                raise Unsupported("writes_count with state merging: use effect counting")
            return [Res(st, V(IntV(sum(1 for (fl, o) in st.writes if fl == name and z3.is_expr(o) and not isinstance(o, tuple))), "int"))]
        if f == "bm_self":          # receiver of a bound method value
            bm = z3.Function("bm_self", Val, Val)
            return [Res(st, V(bm(v(a[0]).t), None))]
        if f == "p_joinp":          # p / q for two paths
            x, y = v(a[0]), v(a[1])
            return [Res(st, V(Val.PathV(p_joinp(vp(x.t), vp(y.t))), "Path"))]
        if f == "parses_int":
            return B(is_intstr(vs(v(a[0]).t)))
        if f == "effect_here":      # a direct occurrence on this path / in this iteration (sound only in positive position: occurrences
            name = a[0].value        # hidden in loop summaries are not counted)
            es = [e for e in st.trace if e.name == name]
            return B(z3.Or(*[e.g() for e in es]) if es else z3.BoolVal(False))
        if f == "no_effect_here":   # no direct occurrence (occurrences inside loops are the loops' own per-iteration obligations)
            name = a[0].value
            es = [e for e in st.trace if e.name == name]
            return B(z3.Not(z3.Or(*[e.g() for e in es])) if es else z3.BoolVal(True))
        if f in ("effect", "no_effect", "effect_count"):
            name = a[0].value
            if any(name in e.inner for e in st.trace):
                if f == "no_effect":
                    return B(z3.Not(z3.Or(*[e.g() for e in st.trace if name in e.inner or e.name == name])))
                raise Unsupported(f"effect {name} occurs inside a loop: its count is not tracked")
            es = [e for e in st.trace if e.name == name]
            if f == "effect_count" and any("*multi*" in e.inner for e in es):
                raise Unsupported(f"effect {name} happens inside a callee: its count is not tracked")
            if f == "effect": return B(z3.Or(*[e.g() for e in es]) if es else z3.BoolVal(False))
            if f == "no_effect": return B(z3.Not(z3.Or(*[e.g() for e in es])) if es else z3.BoolVal(True))
            return [Res(st, V(IntV(z3.Sum(*[z3.If(e.g(), 1, 0) for e in es]) if es else z3.IntVal(0)), "int"))]
        if f == "raised":
            return B(z3.BoolVal(False))
        raise Unsupported(f"spec function {f}")

    def isinstance_term(self, st, x, classes):
        t = x.t
        alts = []
        for cls in classes:
            if cls == "int": alts.append(z3.Or(Val.is_IntV(t), Val.is_BoolV(t)))
            elif cls == "bool": alts.append(Val.is_BoolV(t))
            elif cls == "str": alts.append(Val.is_StrV(t))
            elif cls == "float": alts.append(Val.is_FloatV(t))
            elif cls == "bytes": alts.append(Val.is_BytesV(t))
            elif cls in ("Path", "PosixPath", "PurePath"): alts.append(Val.is_PathV(t))
            elif cls in ("list", "List"): alts.append(z3.And(Val.is_RefV(t), st.read("$class", vr(t)) == self.reg.classtag("list")))
            elif cls in ("dict", "set", "tuple"): alts.append(z3.And(Val.is_RefV(t), st.read("$class", vr(t)) == self.reg.classtag(cls)))
            elif cls == "Enum":
                tags = [self.reg.classtag(e) for e in self.reg.enums]
                alts.append(z3.And(Val.is_RefV(t), z3.Or(*[st.read("$class", vr(t)) == g for g in tags])) if tags else z3.BoolVal(False))
            else:
                subs = self.reg.subclasses(cls)
                # static type known and a subclass: trivially true
                if x.ty and base_type(x.ty) in subs and base_type(x.ty) in self.reg.classes and not (x.ty or "").startswith("opt:"):
                    alts.append(Val.is_RefV(t))
                else:
                    alts.append(z3.And(Val.is_RefV(t), z3.Or(*[st.read("$class", vr(t)) == self.reg.classtag(s) for s in subs])))
        return z3.Or(*alts) if len(alts) != 1 else alts[0]
