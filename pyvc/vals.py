"""Value model shared by the symbolic executor and the contract translator.

One z3 datatype for Python values.  Int is mathematical (exact for Python ints).  Float is a
mathematical real (no IEEE semantics: assumption listed in the evidence).  Objects, lists, dicts,
sets and tuples are references into a heap made of one z3 array per attribute name.  pathlib paths
are values of an uninterpreted sort with free constructors-like functions (structural equality by
congruence)."""
import itertools
import z3

Int = z3.IntSort()
PathS = z3.DeclareSort("PathS")
Byte = z3.BitVecSort(8)
BytesS = z3.SeqSort(Byte)

_V = z3.Datatype("Val")
_V.declare("NoneV")
_V.declare("BoolV", ("b", z3.BoolSort()))
_V.declare("IntV", ("i", Int))
_V.declare("StrV", ("s", z3.StringSort()))
_V.declare("BytesV", ("bs", BytesS))
_V.declare("FloatV", ("f", z3.RealSort()))
_V.declare("RefV", ("r", Int))
_V.declare("PathV", ("p", PathS))
Val = _V.create()
SeqV = z3.SeqSort(Val)

NONE = Val.NoneV
TRUE = Val.BoolV(z3.BoolVal(True))
FALSE = Val.BoolV(z3.BoolVal(False))


def IntV(i):
    return Val.IntV(i if z3.is_expr(i) else z3.IntVal(i))


def BoolV(b):
    return Val.BoolV(b if z3.is_expr(b) else z3.BoolVal(b))


def StrV(s):
    return Val.StrV(s if z3.is_expr(s) else z3.StringVal(s))


def RefV(r):
    return Val.RefV(r if z3.is_expr(r) else z3.IntVal(r))


def bytes_lit(b: bytes):
    if len(b) == 0:
        return z3.Empty(BytesS)
    units = [z3.Unit(z3.BitVecVal(x, 8)) for x in b]
    return units[0] if len(units) == 1 else z3.Concat(*units)


# ---- uninterpreted helpers (all total; axioms are added by the engine where needed)
p_join = z3.Function("p_join", PathS, z3.StringSort(), PathS)        # p / "name"
p_joinp = z3.Function("p_joinp", PathS, PathS, PathS)                # p / q (q relative path)
p_parent = z3.Function("p_parent", PathS, PathS)
p_name = z3.Function("p_name", PathS, z3.StringSort())
p_of_str = z3.Function("p_of_str", z3.StringSort(), PathS)           # Path(s)
p_str = z3.Function("p_str", PathS, z3.StringSort())                 # str(p)
p_with_suffix = z3.Function("p_with_suffix", PathS, z3.StringSort(), PathS)
p_resolve = z3.Function("p_resolve", PathS, PathS)                   # state independent approximation
str_of_int = z3.Function("str_of_int", Int, z3.StringSort())
int_of_str = z3.Function("int_of_str", z3.StringSort(), Int)
is_intstr = z3.Function("is_intstr", z3.StringSort(), z3.BoolSort())  # int(s) succeeds
utf8 = z3.Function("utf8", z3.StringSort(), BytesS)
pack_q = z3.Function("pack_q", Int, BytesS)
pack_d_int = z3.Function("pack_d_int", Int, BytesS)                  # struct.pack("!d", <int>)
pack_d = z3.Function("pack_d", z3.RealSort(), BytesS)
sha256 = z3.Function("sha256", BytesS, BytesS)
py_id = z3.Function("py_id", Int, Int)                              # id(obj) of a reference


key_trig = z3.Function("key_trig", Val, z3.BoolSort())          # instantiation trigger for quantifiers over dict keys (always true)


def path_axioms():
    """Facts about pathlib used by the contracts (assumed; listed in the trusted base)."""
    p, q = z3.Const("p!ax", PathS), z3.Const("q!ax", PathS)
    s, t = z3.String("s!ax"), z3.String("t!ax")
    p_suffix = z3.Function("p_suffix", PathS, z3.StringSort())
    p_base = z3.Function("p_joinp_base", PathS, PathS, PathS)
    ax = [
        z3.ForAll([p, q], p_base(p_joinp(p, q), q) == p, patterns=[p_joinp(p, q)]),      # p / q determines p, for a given relative q
        z3.ForAll([p, s], p_suffix(p_with_suffix(p, s)) == s, patterns=[p_with_suffix(p, s)]),
        z3.ForAll([p, s], p_parent(p_join(p, s)) == p, patterns=[p_join(p, s)]),
        z3.ForAll([p, s], p_name(p_join(p, s)) == s, patterns=[p_join(p, s)]),
        z3.ForAll([s], p_str(p_of_str(s)) == s, patterns=[p_of_str(s)]),
        z3.ForAll([p], p_of_str(p_str(p)) == p, patterns=[p_str(p)]),
        z3.ForAll([p, s], p_parent(p_with_suffix(p, s)) == p_parent(p), patterns=[p_with_suffix(p, s)]),
    ]
    return ax


def int_str_axioms():
    i = z3.Int("i!ax")
    return [z3.ForAll([i], z3.And(int_of_str(str_of_int(i)) == i, is_intstr(str_of_int(i))),
                      patterns=[str_of_int(i)])]


try:
    z3.set_param("warning", False)
except Exception:
    pass

_fresh = itertools.count()


def fresh_name(prefix):
    return f"{prefix}!{next(_fresh)}"


def fresh_val(prefix="v"):
    return z3.Const(fresh_name(prefix), Val)


def fresh_int(prefix="n"):
    return z3.Int(fresh_name(prefix))


def qforall(vs, body, patterns=None):
    """ForAll with patterns when z3 accepts them (terms containing ite are not valid patterns)"""
    if patterns:
        try:
            return z3.ForAll(vs, body, patterns=patterns)
        except z3.Z3Exception:
            pass
    return z3.ForAll(vs, body)


def _unwrap(cons, acc):
    def f(t):
        # accessor applied to its own constructor is resolved syntactically (keeps E-matching triggers effective)
        if z3.is_app(t) and t.num_args() == 1 and t.decl().name() == cons:
            return t.arg(0)
        return acc(t)
    return f


vi = _unwrap("IntV", Val.i)
vb = _unwrap("BoolV", Val.b)
vs = _unwrap("StrV", Val.s)
vp = _unwrap("PathV", Val.p)
vr = _unwrap("RefV", Val.r)
vf = _unwrap("FloatV", Val.f)
vbs = _unwrap("BytesV", Val.bs)
