"""Sidecar tables: classes (fields, bases), enums, constants, contracts.

Contracts are keyed 'Class.method' or 'function'.  A clause is a Python expression string, or a
pair (tags, string) where tags is a property id or a tuple of ids: a tagged clause is *assumed* for
callers everywhere but generates proof obligations only when one of its properties is being checked."""
import itertools

BUILTIN_EXC = {
    "BaseException": None, "Exception": "BaseException", "SystemExit": "BaseException",
    "KeyboardInterrupt": "BaseException", "ValueError": "Exception", "TypeError": "Exception",
    "AssertionError": "Exception", "AttributeError": "Exception", "KeyError": "LookupError",
    "IndexError": "LookupError", "LookupError": "Exception", "NotImplementedError": "RuntimeError",
    "RuntimeError": "Exception", "OSError": "Exception", "FileNotFoundError": "OSError",
    "StopIteration": "Exception", "struct.error": "Exception", "ModuleNotFoundError": "ImportError",
    "ImportError": "Exception", "NameError": "Exception", "UnboundLocalError": "NameError",
}


class Registry:
    def __init__(self):
        self.classes = {}     # name -> dict(bases=[...], fields={name: type}, module=..., real=dotted path)
        self.enums = {}       # name -> list of (member, value)
        self.consts = {}      # dotted name -> ('int', v) | ('str', v) | ('bytes', v) | ('enum', cls, member) | ('class', name)
        self.contracts = {}   # key -> dict
        self.exc = dict(BUILTIN_EXC)
        self.runtime = {}     # name -> python callable: run-time meaning of a spec function (used when a clause is replayed)
        self.specfuns = {}    # name -> callable(engine, st, [V...]) -> V   (ghost / spec functions)
        self._tags = {}
        self._tagc = itertools.count(10)

    # ---- declarations
    def klass(self, name, bases=(), fields=None, real=None, exc=False, dict_facts=None):
        """dict_facts: {field: clause over _owner, _k, _v} — representation invariant of a dict-valued field,
        assumed when an entry is read through that field and checked when an entry is written through it"""
        self.classes[name] = dict(bases=list(bases), fields=dict(fields or {}), real=real, dict_facts=dict(dict_facts or {}))
        if exc:
            self.exc[name] = bases[0] if bases else "Exception"
        self.consts.setdefault(name, ("class", name))

    def close_world(self, base, subclasses):
        """the instances of `base` met by the verified code are instances of one of `subclasses` (the base class is
        abstract; the list is checked against the class definitions of the tree under check on every run): a method call
        on a receiver of static type `base` is split over them"""
        if not hasattr(self, "closed"):
            self.closed = {}
        self.closed[base] = list(subclasses)

    def enum(self, name, members, real=None):
        """members: list of (name, value)"""
        self.enums[name] = list(members)
        self.classes[name] = dict(bases=["Enum"], fields={"value": "int", "name": "str"}, real=real)
        for k, (m, v) in enumerate(members):
            self.consts[f"{name}.{m}"] = ("enum", name, m)
        self.consts.setdefault(name, ("class", name))

    def const(self, dotted, kind, value):
        self.consts[dotted] = (kind, value)

    def contract(self, key, **kw):
        kw.setdefault("params", None)
        kw["key"] = key
        self.contracts[key] = kw
        return kw

    # ---- queries
    def classtag(self, name):
        if name not in self._tags:
            self._tags[name] = next(self._tagc)
        return self._tags[name]

    def mro(self, name):
        out, todo = [], [name]
        while todo:
            c = todo.pop(0)
            if c in out:
                continue
            out.append(c)
            todo += self.classes.get(c, {}).get("bases", [])
        return out

    def subclasses(self, name):
        return [c for c in self.classes if name in self.mro(c)] + ([name] if name not in self.classes else [])

    def field_type(self, cls, attr):
        for c in self.mro(cls) if cls else []:
            t = self.classes.get(c, {}).get("fields", {}).get(attr)
            if t:
                return t
        return None

    def dict_fact(self, cls, field):
        for c in self.mro(cls) if cls else []:
            t = self.classes.get(c, {}).get("dict_facts", {}).get(field)
            if t:
                return t
        return None

    def lookup2(self, cls, meth, *tables):
        """most specific class of the MRO of cls that defines meth in any of the tables"""
        for c in self.mro(cls) if cls else []:
            k = f"{c}.{meth}"
            if any(k in t for t in tables):
                return k
        return None

    def lookup(self, cls, meth, table):
        """find 'C.meth' in table along the MRO of cls"""
        for c in self.mro(cls) if cls else []:
            k = f"{c}.{meth}"
            if k in table:
                return k
        return None

    def is_exc_sub(self, name, parent):
        seen = 0
        while name is not None and seen < 50:
            if name == parent:
                return True
            if name in self.exc:
                name = self.exc[name]
            elif name in self.classes and self.classes[name]["bases"]:
                name = self.classes[name]["bases"][0]
            else:
                name = "Exception" if name not in ("Exception", "BaseException") else None
            seen += 1
        return False


def clause_text(c):
    return c if isinstance(c, str) else c[1]


def clause_tags(c):
    if isinstance(c, str):
        return None
    t = c[0]
    return (t,) if isinstance(t, str) else tuple(t)


def clause_active(c, prop):
    """does clause c generate a proof obligation when property `prop` is checked?
    ("ASSUME", text) clauses are never proved: they are assumed for callers and listed in the trusted base"""
    tags = clause_tags(c)
    if tags is not None and "ASSUME" in tags:
        return False
    # Tags say which property a clause was written for.  Every clause of a function under contract is proved in every
    # check that lists the function (the properties overlap: a change that breaks a clause written for C06 in a function
    # that C04 relies on is a finding for C04 too); VERIF_TAGGED_ONLY=1 restores the per-property selection.
    import os
    if os.environ.get("VERIF_TAGGED_ONLY") == "1":
        return tags is None or prop is None or prop in tags
    return True
