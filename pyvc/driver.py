"""Per-property driver: verify the functions under contract, discharge obligations (16-process pool),
run lemmas and bounded stand-ins, replay counterexamples, write evidence, print VIOLATION lines.

exit 0 held / 1 violation / 2 undecided / 3 checker crash"""
import importlib
import json
import multiprocessing as mp
import os
import sys
import time
import traceback

ROOT = os.path.dirname(os.path.dirname(os.path.abspath(__file__)))
REPO = os.environ.get("VERIF_REPO", "/repo")


_OBS = []


_TIER = "quick"


def _discharge_idx(i):
    from pyvc.solve import discharge, second_opinion
    r = discharge(_OBS[i])
    m = r.pop("model", None)
    r["has_model"] = m is not None
    if _TIER == "thorough" and r["status"] == "proved" and not r["backend"].startswith("cvc5"):
        # thorough tier: every obligation discharged by z3 is also submitted to cvc5 (independent code base); `sat` there is a
        # disagreement between back ends and stops the check (exit 3), `unknown` leaves the z3 verdict as it is
        r["second"] = second_opinion(_OBS[i])
    return i, r


def _worker(args):
    pid, key, tier = args
    t0 = time.time()
    try:
        from contracts import build
        from pyvc.solve import discharge, model_summary, smt2_of
        global _OBS, _TIER
        _TIER = tier
        eng = build(pid)
        # symbolic execution of one body is bounded in time: a body that makes the executor diverge is undecided, not a hang
        import signal

        class _SymexTimeout(Exception):
            pass

        def _alarm(signum, frame):
            raise _SymexTimeout()
        limit = int(os.environ.get("VERIF_SYMEX_S", "300"))
        old_handler = signal.signal(signal.SIGALRM, _alarm)
        signal.alarm(limit)
        try:
            rep = eng.verify(key)
        except _SymexTimeout:
            return dict(key=key, name=key, error=f"symbolic execution exceeded {limit} s (undecided)", obligations=[], trivial=[], undecided=[],
                        wall=time.time() - t0)
        finally:
            signal.alarm(0)
            signal.signal(signal.SIGALRM, old_handler)
        obs = []
        allobs = rep.pop("obligations", [])
        pre = {}
        if len(allobs) > 6:
            # discharge in forked children (the obligations are inherited by fork); models are recomputed in the
            # parent only for the (few) obligations that are not proved
            _OBS = allobs
            with mp.get_context("fork").Pool(min(6, 1 + len(allobs) // 6)) as pool:
                for i, r in pool.imap_unordered(_discharge_idx, range(len(allobs)), chunksize=1):
                    pre[i] = r
        for i, ob in enumerate(allobs):
            if i in pre and pre[i]["status"] == "proved":
                r = dict(pre[i], model=None)
            elif i in pre and pre[i]["status"] == "unknown":
                r = dict(pre[i], model=None)
            else:
                r = discharge(ob, z3_ms=3000, cli_s=5) if i in pre else discharge(ob)
                if i in pre and r["status"] == "proved":
                    r = discharge(ob)
            if tier == "thorough" and i not in pre and r["status"] == "proved" and not r["backend"].startswith("cvc5"):
                from pyvc.solve import second_opinion
                r["second"] = second_opinion(ob)
            item = dict(name=ob.name, kind=ob.kind, line=ob.lineno, status=r["status"], backend=r["backend"],
                        time=r["time"], model=model_summary(r.get("model")), reason=r.get("reason"), second=r.get("second"))
            if r["status"] in ("failed", "candidate") and r.get("model") is not None:
                try:
                    item["witness"] = eng.witness(key, ob, r["model"])
                except Exception as e:  # noqa
                    item["witness"] = None
                    item["witness_error"] = repr(e)
                w = item.get("witness")
                if w and w.get("clause") and not eng.reg.contracts[key].get("no_replay"):
                    try:
                        from pyvc.replay import replay_witness
                        w["replay"] = replay_witness(eng.reg, w, w["clause"], w["tag"])
                        w["replayed"] = bool(w["replay"].get("replayed"))
                    except BaseException as e:  # noqa
                        w["replay"] = dict(replayed=False, reason="replay harness error: " + repr(e))
            if item["status"] == "candidate":
                # undecided by the solvers (model of the quantifier-free part, quantified facts not refuted in time).
                # It counts as a violation when the candidate input fails on the real code, or when this obligation is
                # recorded in the committed baseline as discharged quickly on the unchanged tree (it passed, now it fails).
                base = BASELINE.get(pid, {}).get(key, {}).get(norm_name(ob.name))
                if (item.get("witness") or {}).get("replayed"):
                    item["status"] = "failed"
                elif ob.kind == "effect-guard" and ob.name.rstrip().endswith("requires False"):
                    # the guard forbids the effect outright: reaching it at all (a model of the path exists) is the failure
                    item["status"] = "failed"
                    item["backend"] += "; the effect is forbidden by its guard and the path reaching it has a model"
                elif base is not None and base < 1.0:
                    item["status"] = "failed"
                    item["backend"] += f"; discharged in {base:.2f}s on the unchanged tree (baseline)"
                else:
                    item["status"] = "unknown"
            obs.append(item)
        rep["obligations"] = obs
        rep["unreachable_ok"] = list(eng.reg.contracts.get(key, {}).get("unreachable_ok", []))
        rep["trivial"] = [list(x) for x in rep.get("trivial", [])]
        rep["undecided"] = [list(x) for x in rep.get("undecided", [])]
        rep["wall"] = time.time() - t0
        return rep
    except Exception:
        return dict(key=key, name=key, error="crash: " + traceback.format_exc(), obligations=[], trivial=[], undecided=[], wall=time.time() - t0, crash=True)


def contracts_unreachable_ok(pid, key):
    try:
        from contracts import build
        return list(build(pid).reg.contracts.get(key, {}).get("unreachable_ok", []))
    except Exception:
        return []


def norm_name(n):
    import re
    return re.sub(r"@?L\d+", "L#", n)


def load_baseline():
    out = {}
    d = os.path.join(ROOT, "baseline")
    if os.path.isdir(d):
        for f in os.listdir(d):
            if f.endswith(".json"):
                out[f[:-5]] = json.load(open(os.path.join(d, f)))
    return out


BASELINE = load_baseline()


def load_known():
    p = os.path.join(ROOT, "known_findings.json")
    if os.path.exists(p):
        return json.load(open(p))
    return {"findings": [], "fixed": []}


def run_property(pid, tier="quick", seed=0):
    t0 = time.time()
    import logging
    logging.disable(logging.CRITICAL)
    sys.path.insert(0, ROOT)
    mod = importlib.import_module(f"props.{pid}")
    funcs = list(mod.FUNCS)
    if tier == "thorough":
        funcs += list(getattr(mod, "FUNCS_THOROUGH", []))
    nproc = min(16, max(1, len(funcs)))
    from concurrent.futures import ProcessPoolExecutor
    with ProcessPoolExecutor(max_workers=nproc, mp_context=mp.get_context("fork")) as pool:      # non-daemonic workers
        reports = list(pool.map(_worker, [(pid, k, tier) for k in funcs], chunksize=1))
    known = load_known()
    kf = [f for f in known.get("findings", []) if f["property"] == pid]
    violations, undecided, crashes, known_hits = [], [], [], []
    engine_errors = []
    n_ob = n_dis = 0
    backends = {}
    solver_time = 0.0
    samples = []
    fn_rows = []
    for rep in reports:
        if rep.get("crash"):
            # the engine raised while executing this one body (a construct it does not handle gracefully): nothing is concluded
            # about the function (undecided).  A failure of the checker as a whole shows up as zero obligations (exit 3).
            engine_errors.append(rep)
            undecided.append(dict(function=rep["key"], reason="engine error on this body: " + str(rep.get("error", "")).strip().splitlines()[-1][:200]))
            continue
        if rep.get("error"):
            undecided.append(dict(function=rep["key"], reason=rep["error"]))
        for u in rep.get("undecided", []):
            undecided.append(dict(function=rep["key"], reason=u[0], line=u[1]))
        for u in rep.get("unreached", []):
            # a statement of the real body that no feasible symbolic state reaches and that the contract does not list as
            # intentionally excluded: its obligations would be vacuous - never counted as proved
            undecided.append(dict(function=rep["key"], reason=f"statement never reached under the contract (vacuity guard): L{u['line']}: {u['text'][:100]}", line=u["line"]))
        triv = rep.get("trivial", [])
        n_ob += len(triv); n_dis += len(triv)
        if triv:
            backends["simplifier"] = backends.get("simplifier", 0) + len(triv)
        for ob in rep["obligations"]:
            n_ob += 1
            solver_time += ob["time"]
            if ob["time"] > 2.0:
                print(f"  slow ({ob['time']:.1f}s, {ob['status']}, {ob['backend']}): [{rep['key']}] {ob['name'][:140]}", file=sys.stderr)
            if ob["status"] == "proved":
                n_dis += 1
                backends[ob["backend"]] = backends.get(ob["backend"], 0) + 1
                if ob.get("second") == "unsat":
                    backends["confirmed by cvc5 (thorough tier)"] = backends.get("confirmed by cvc5 (thorough tier)", 0) + 1
                elif ob.get("second") == "sat":
                    crashes.append(dict(function=rep["key"], error=f"back ends disagree on {ob['name'][:160]}: {ob['backend']} proved it, cvc5 found a model"))
            elif ob["status"] == "failed":
                violations.append(dict(function=rep["key"], **ob))
            else:
                undecided.append(dict(function=rep["key"], reason="solver unknown: " + ob["name"], obligation=ob["name"]))
        fn_rows.append(dict(function=rep["key"], line=rep.get("line"), source_hash=rep.get("hash"), paths=rep.get("paths"),
                            outcomes=rep.get("outcomes"), obligations=len(rep["obligations"]) + len(triv),
                            awaits=rep.get("awaits"), dropped_calls=rep.get("dropped"), symexec_s=round(rep.get("symexec_s", 0), 3),
                            statements_never_reached=rep.get("unreached", []),
                            statements_excluded_by_contract=rep.get("unreachable_ok", [])))
        for ob in rep["obligations"][:3]:
            samples.append(f"{rep['key']} :: {ob['name']} -> {ob['status']} [{ob['backend']}, {ob['time']*1000:.1f} ms]")

    # lemmas (pure formulas over the spec functions)
    lemma_rows = []
    for lem in getattr(mod, "LEMMAS", []):
        try:
            res = lem()
        except Exception:
            crashes.append(dict(key="lemma " + getattr(lem, "__name__", "?"), error=traceback.format_exc()))
            continue
        for nm, status, backend, tm in res:
            n_ob += 1
            solver_time += tm
            lemma_rows.append(dict(lemma=nm, status=status, backend=backend, ms=round(tm * 1000, 1)))
            if status == "proved":
                n_dis += 1
                backends[backend] = backends.get(backend, 0) + 1
            elif status == "failed":
                violations.append(dict(function="lemma", name=nm, kind="lemma", status="failed", backend=backend, time=tm, model=None))
            else:
                undecided.append(dict(function="lemma", reason="solver unknown: " + nm))

    # bounded stand-ins (never counted as proved)
    bounded_rows = []
    for bname, bfn in getattr(mod, "BOUNDED", []):
        tb = time.time()
        try:
            res = bfn(tier, seed)
        except Exception as e_:
            # the suite runs the real code: an exception escaping it on a tree where it did not raise before comes from the code
            # under test (the suites pass on the unchanged tree) - reported as a failing case, with the traceback in the replay file
            res = dict(tool="cpython", bound="(suite aborted)", cases=1, distinct=1,
                       failures=[dict(name=f"{pid} the real code raised an exception the bounded suite does not expect: {type(e_).__name__}",
                                      case="suite-aborted:" + type(e_).__name__, traceback=traceback.format_exc()[-1500:])])
        res["name"] = bname
        res["wall_s"] = round(time.time() - tb, 2)
        fails = res.pop("failures", [])
        res["failures"] = len(fails)
        bounded_rows.append(res)
        for f in fails:
            violations.append(dict(function="bounded:" + bname, name=f.get("name", bname), kind="bounded", status="failed",
                                   backend="cpython", time=0, model=None, witness=dict(f, replayed=True), bounded=True))

    # classification against the known-findings file
    new_violations = []
    for v in violations:
        hit = None
        for f in kf:
            if f.get("obligation") and f["obligation"] in v["name"] and (not f.get("function") or f["function"] == v["function"]):
                hit = f
            if f.get("case") and v.get("witness") and f["case"] == (v["witness"] or {}).get("case"):
                hit = f
        if hit:
            known_hits.append((hit, v))
        else:
            new_violations.append(v)

    # replay files + output lines
    os.makedirs(os.path.join(ROOT, "replay"), exist_ok=True)
    lines = []
    for f, v in known_hits:
        lines.append(f"KNOWN-FINDING: property={pid} {f['what']}")
    seen = set()
    uniq, seen_v = [], set()
    for v in new_violations:
        k = (v["function"], norm_name(v["name"]), json.dumps((v.get("witness") or {}).get("case"), default=str))
        if k not in seen_v:
            seen_v.add(k); uniq.append(v)
    new_violations = uniq
    for i, v in enumerate(new_violations):
        path = os.path.join(ROOT, "replay", f"{pid}-{i}.json")
        rp = dict(property=pid, function=v["function"], obligation=v["name"], kind=v["kind"], backend=v["backend"],
                  solver_model=v.get("model"), witness=v.get("witness"), repo=REPO)
        replayed = False
        if v.get("witness") and v["witness"].get("replayed"):
            replayed = True
        with open(path, "w") as fh:
            json.dump(rp, fh, indent=1, default=str)
        suffix = "" if replayed else " no-failing-input-found"
        lines.append(f"VIOLATION property={pid} replay={path} obligation={v['name']!r}{suffix}" if False else f"VIOLATION property={pid} replay={path}{suffix}")
        print(f"  failed obligation: [{v['function']}] {v['name']}", file=sys.stderr)
        if v.get("witness"):
            print(f"    witness: {json.dumps(v['witness'], default=str)[:600]}", file=sys.stderr)
    for k in known_hits:
        pass
    for l in dict.fromkeys(lines):
        print(l)

    level = getattr(mod, "LEVEL", "proof")
    wall = time.time() - t0
    if undecided and level == "proof":
        level_out = "other"
    else:
        level_out = level
    ev = dict(
        property_id=pid, tier=tier, seed=seed, level=level_out,
        coverage=dict(
            obligations=n_ob, discharged=n_dis,
            checker_cmd=f"bin/check {pid} --tier {tier}",
            trusted_base=list(getattr(mod, "TRUSTED", [])),
            explanation=getattr(mod, "EXPLANATION", "") or (
                f"{len(fn_rows)} function(s) of the working tree under sidecar contracts: {n_ob} obligations generated by symbolic execution of the real bodies, "
                f"{n_dis} discharged ({', '.join(f'{k}: {v}' for k, v in sorted(backends.items())) or 'none'}); "
                f"{len(bounded_rows)} bounded stand-in(s) on the real code ({sum(b.get('cases', 0) for b in bounded_rows)} cases), never counted as proved; "
                f"{len(known_hits)} failure(s) matched recorded findings"),
            functions_under_contract=fn_rows, lemmas=lemma_rows, bounded=bounded_rows,
            backends=backends, solver_time_s=round(solver_time, 3),
            undecided=undecided, samples=samples[:12] or ["(none)"],
            evaluations=sum(b.get("cases", 0) for b in bounded_rows) or None,
            distinct_nontrivial=sum(b.get("distinct", 0) for b in bounded_rows) or None,
            known_findings=[f["what"] for f, _ in known_hits],
        ),
        assumptions=list(getattr(mod, "ASSUMPTIONS", [])),
        wall_s=round(wall, 2), violations=len(new_violations),
    )
    ev["coverage"] = {k: v for k, v in ev["coverage"].items() if v is not None}
    if os.environ.get("VERIF_RECORD_BASELINE") == "1" and not new_violations and not undecided:
        base = {}
        for rep in reports:
            d = base.setdefault(rep["key"], {})
            for ob in rep.get("obligations", []):
                nm = norm_name(ob["name"])
                d[nm] = round(max(d.get(nm, 0.0), ob["time"]), 3)
            for t in rep.get("trivial", []):        # discharged by the simplifier alone (not counted as obligations): time 0
                d.setdefault(norm_name(t[0]), 0.0)
        os.makedirs(os.path.join(ROOT, "baseline"), exist_ok=True)
        json.dump(base, open(os.path.join(ROOT, "baseline", f"{pid}.json"), "w"), indent=0, sort_keys=True)
    # evidence of a run against another tree (drills: VERIF_REPO) never overwrites the evidence of /repo
    evdir = os.path.join(ROOT, "evidence") if os.path.realpath(REPO) == "/repo" else os.path.join(ROOT, ".cache", "evidence-other-tree")
    os.makedirs(evdir, exist_ok=True)
    with open(os.path.join(evdir, f"{pid}.json"), "w") as fh:
        json.dump(ev, fh, indent=1, default=str)
    print(f"[{pid}] functions={len(fn_rows)} obligations={n_ob} discharged={n_dis} failed={len(violations)} (known {len(known_hits)}) "
          f"undecided={len(undecided)} crashes={len(crashes)} bounded={[(b['name'], b.get('cases')) for b in bounded_rows]} wall={wall:.1f}s", file=sys.stderr)
    for u in undecided[:10]:
        print("  undecided:", u, file=sys.stderr)
    for c in crashes:
        print("  CRASH:", c.get("key"), c.get("error"), file=sys.stderr)
    if crashes or (engine_errors and len(engine_errors) == len(reports)):
        return 3
    if new_violations:
        return 1
    if n_ob == 0 and not bounded_rows:
        print("no obligation generated (vacuous run)", file=sys.stderr)
        return 3
    if undecided and not getattr(mod, "ALLOW_UNDECIDED", False):
        return 2
    return 0


def main(argv=None):
    import argparse
    ap = argparse.ArgumentParser()
    ap.add_argument("pid")
    ap.add_argument("--tier", default=os.environ.get("VERIF_TIER", "quick"))
    ap.add_argument("--replay", default=None)
    a = ap.parse_args(argv)
    seed = int(os.environ.get("VERIF_SEED", "0"))
    if a.replay:
        from pyvc.replay import replay_file
        sys.exit(replay_file(a.replay))
    sys.exit(run_property(a.pid, a.tier, seed))


if __name__ == "__main__":
    main()
