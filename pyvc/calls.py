"""Calls: builtins, inlined helpers, modular contract application, interference at await."""
import ast
import z3
from .state import *  # noqa
from .vals import *   # noqa
from .registry import clause_text, clause_active
import re as _re
TRACE_FN = _re.compile(r"\b(effect|no_effect|effect_count|effect_result|effect_arg|effect_arg_nth|effect_with_arg|effect_before|at_effect|reached_loop|maybe_effect|no_effect_here|effect_here|writes_count)\(")


SPEC_FUNCS = {"old", "implies", "forall", "exists", "isint", "isstr", "isnone", "isbool", "isref", "ispath", "isfloat",
              "isbytes", "elems", "at", "length", "result", "iff", "count_where", "isclass", "keys", "lookup", "haskey",
              "distinct", "isfile", "isdir", "exists_path", "issymlink", "fs_text", "fs_target", "effect", "no_effect",
              "effect_count", "fresh", "unchanged", "ite", "seq_eq", "raised", "isfresh", "forall_keys", "forall_val", "isregular", "isabsent", "effect_before", "effect_result", "at_effect", "fs_read", "parses_int", "writes_count", "effect_arg", "bm_self", "p_joinp", "dict_unchanged", "reached_loop", "maybe_effect", "forall_obj", "effect_here", "effect_with_arg", "monotone_true", "at_iteration_start", "p_relative_to", "no_effect_here", "effect_arg_nth", "getattr_dyn", "py_equal"}


class CallMixin:
    # ------------------------------------------------------------------ entry
    def ev_Call(self, st, n):
        f = n.func
        type_new = (isinstance(f, ast.Call) and isinstance(f.func, ast.Name) and f.func.id == "type" and not n.args and len(n.keywords) == 1
                    and n.keywords[0].arg is None)
        if any(isinstance(a, ast.Starred) for a in n.args[:-1]) or (any(k.arg is None for k in n.keywords) and not type_new):
            raise Unsupported(f"*args/**kwargs call at line {n.lineno}")
        if (isinstance(f, ast.Call) and isinstance(f.func, ast.Name) and f.func.id == "type" and len(f.args) == 1 and not n.args
                and len(n.keywords) == 1 and n.keywords[0].arg is None and "new_like" in self.reg.contracts):
            # type(x)(**kwargs): a new object of the class of x built from a keyword table (external `new_like(x, kwargs)`)
            return self.evseq(st, [f.args[0], n.keywords[0].value], lambda s, vs: self.apply_contract(s, "new_like", [vs[0], vs[1]], {}, n.lineno))
        if n.args and isinstance(n.args[-1], ast.Starred):
            # f(a, *xs): supported for callees under contract whose last parameter stands for their *varargs tuple
            star = n.args[-1]
            n2 = ast.copy_location(ast.Call(func=n.func, args=list(n.args[:-1]) + [ast.copy_location(ast.Call(
                func=ast.Name(id="__starred_tuple__", ctx=ast.Load()), args=[star.value], keywords=[]), star)], keywords=n.keywords), n)
            self._starred_calls.add(id(n2))
            n = n2
            f = n.func
        if self.spec_depth and isinstance(f, ast.Name) and (f.id in SPEC_FUNCS or f.id in self.reg.specfuns):
            return self.spec_call(st, n)
        if isinstance(f, ast.Name):
            nm = f.id
            if nm in st.env and isinstance(st.env[nm], (ast.FunctionDef, ast.AsyncFunctionDef)):
                fn = st.env[nm]
                return self.evargs(st, n, lambda s, a, kw: self.inline(s, fn, a, kw, n.lineno, closure=True))
            b = getattr(self, "bi_" + nm, None)
            if b is not None and nm not in st.env:
                if nm in ("isinstance", "issubclass"):      # the second argument is a class expression, not a value
                    return self.evseq(st, [n.args[0]], lambda s, vs: b(s, vs, {}, n))
                return self.evargs(st, n, lambda s, a, kw: b(s, a, kw, n))
            key = nm
            if nm in self.reg.classes and nm not in self.functions and nm not in self.reg.contracts:
                key = self.reg.lookup(nm, "__init__", self.functions) or self.reg.lookup(nm, "__init__", self.reg.contracts)
                if key is None:
                    raise Unsupported(f"constructor {nm} without contract (line {n.lineno})")
                return self.evargs(st, n, lambda s, a, kw: self.construct(s, nm, key, a, kw, n.lineno))
            if key in self.functions or key in self.reg.contracts:
                return self.evargs(st, n, lambda s, a, kw: self.call_function(s, key, a, kw, n.lineno))
            if nm in st.env and isinstance(st.env[nm], V) and base_type(st.env[nm].ty) in self.reg.classes:
                # a local object that is called: obj(...) is obj.__call__(...)
                recv = st.env[nm]
                return self.evargs(st, n, lambda s, a, kw: self.call_method(s, recv, "__call__", a, n.lineno, kw=kw))
            raise Unsupported(f"call to {nm} (no contract) at line {n.lineno}")
        if isinstance(f, ast.Attribute):
            d = self.dotted(f)
            if d is not None and d.split(".")[0] not in st.env and d.split(".")[0] not in st.ghost:
                # module-level / static function by dotted name
                if d in self.functions or d in self.reg.contracts:
                    return self.evargs(st, n, lambda s, a, kw: self.call_function(s, d, a, kw, n.lineno))
                b = getattr(self, "bi_" + d.replace(".", "_"), None)
                if b is not None:
                    return self.evargs(st, n, lambda s, a, kw: b(s, a, kw, n))
            if isinstance(f.value, ast.Call) and self.dotted(f.value.func) == "super":
                cls = self.current_class
                bases = self.reg.mro(cls)[1:]
                for c in bases:
                    k = f"{c}.{f.attr}"
                    if k in self.functions or k in self.reg.contracts:
                        me = st.env["self"]
                        return self.evargs(st, n, lambda s, a, kw: self.call_function(s, k, [me] + a, kw, n.lineno, recv_ty=c))
                if f.attr == "__init__":
                    return self.evargs(st, n, lambda s, a, kw: [Res(s, V(NONE, "none"))])
                raise Unsupported(f"super().{f.attr} at line {n.lineno}")
            out = []
            for r in self.ev(st, f.value):
                if not r.ok:
                    out.append(r); continue
                recv = r.val
                out += self.evargs(r.st, n, lambda s, a, kw: self.call_method(s, recv, f.attr, a, n.lineno, kw=kw, node=n))
            return out
        raise Unsupported(f"call form at line {n.lineno}")

    def evargs(self, st, n, k):
        nodes = list(n.args) + [kw.value for kw in n.keywords]
        names = [kw.arg for kw in n.keywords]
        npos = len(n.args)
        return self.evseq(st, nodes, lambda s, vs: k(s, vs[:npos], dict(zip(names, vs[npos:]))))

    def call_method(self, st, recv, meth, args, lineno, kw=None, node=None, exc=None):
        kw = kw or {}
        ty = base_type(recv.ty)
        if ty and ty.startswith("type:"):
            cls = ty[5:]
            k = self.reg.lookup2(cls, meth, self.functions, self.reg.contracts)
            if k:
                return self.call_function(st, k, args, kw, lineno)
        closed = getattr(self.reg, "closed", {})
        if ty in closed and not (recv.ty or "").startswith("opt:"):
            targets = {}
            for sub in closed[ty]:
                ks = self.reg.lookup2(sub, meth, self.functions, self.reg.contracts)
                targets.setdefault(ks, []).append(sub)
            if len(targets) > 1 and None not in targets:
                self.check_closed_world(ty)
                out = []
                for ks, subs in targets.items():
                    s2 = st.copy()
                    tags = [self.reg.classtag(c2) for c1 in subs for c2 in self.reg.subclasses(c1)]
                    s2.assume(z3.Or(*[s2.read("$class", vr(recv.t)) == g for g in tags]))
                    if not self.feasible(s2):
                        continue
                    r2 = V(recv.t, subs[0] if len(subs) == 1 else recv.ty, recv.src)
                    out += self.call_function(s2, ks, [r2] + args, kw, lineno, recv_ty=subs[0])
                return out
        k = self.reg.lookup2(ty, meth, self.functions, self.reg.contracts)
        if k is not None:
            return self.call_function(st, k, [recv] + args, kw, lineno, recv_ty=ty)
        b = getattr(self, f"m_{ty}_{meth}", None)
        if b is not None:
            return b(st, recv, args, kw, lineno)
        if ty in self.reg.classes and self.declares_field(ty, meth):
            # obj.field(...) : the field holds a callable; dispatch on the declared type of the field
            out = []
            for r in self.getattr(st, recv, meth, lineno):
                if not r.ok:
                    out.append(r); continue
                out += self.call_method(r.st, r.val, "__call__", args, lineno, kw=kw)
            return out
        raise Unsupported(f"method {recv.ty}.{meth} (no contract) at line {lineno}")

    def bi___starred_tuple__(self, st, a, kw, n):
        return [Res(st, self.new_list(st, self.elems(st, a[0]), "tuple"))]

    def call_function(self, st, key, args, kw, lineno, recv_ty=None):
        if key in self.functions and (key in self.inline_keys or key not in self.reg.contracts):
            if any(isinstance(a_, V) and a_.ty == "tuple" and getattr(a_, "src", None) == "starred" for a_ in args):
                raise Unsupported(f"*args call of an inlined function at line {lineno}")
            fn, cls = self.functions[key]
            return self.inline(st, fn, args, kw, lineno, cls=cls)
        return self.apply_contract(st, key, args, kw, lineno)

    def construct(self, st, cls, key, args, kw, lineno):
        obj = self.alloc(st, cls)
        out = []
        for r in self.call_function(st, key, [obj] + args, kw, lineno, recv_ty=cls):
            out.append(Res(r.st, obj) if r.ok else r)
        return out

    # ------------------------------------------------------------------ inlining
    def bind_params(self, fn, args, kw, st):
        a = fn.args
        params = [x.arg for x in a.posonlyargs + a.args]
        env = {}
        if len(args) > len(params) and not a.vararg:
            raise Unsupported(f"too many arguments for {fn.name}")
        for p, v in zip(params, args):
            env[p] = v
        if a.vararg:
            env[a.vararg.arg] = self.new_list(st, self.mkseq(args[len(params):]), "tuple")
        defaults = dict(zip(params[len(params) - len(a.defaults):], a.defaults))
        for p in params[len(args):]:
            if p in kw: env[p] = kw[p]
            elif p in defaults: env[p] = self.ev1(st, defaults[p])
            else: raise Unsupported(f"missing argument {p} for {fn.name}")
        for p, d in zip(a.kwonlyargs, a.kw_defaults):
            if p.arg in kw: env[p.arg] = kw[p.arg]
            elif d is not None: env[p.arg] = self.ev1(st, d)
            else: raise Unsupported(f"missing keyword argument {p.arg}")
        return env

    def inline(self, st, fn, args, kw, lineno, cls=None, closure=False):
        if self.depth > 12:
            raise Unsupported(f"inline depth exceeded at {fn.name}")
        saved_env, saved_cls = st.env, self.current_class
        env = self.bind_params(fn, args, kw, st)
        if closure:
            env = {**saved_env, **env}
        st.env = env
        self.depth += 1
        if cls: self.current_class = cls
        try:
            body = [s for s in fn.body]
            rs = self.block(st, body)
        finally:
            self.depth -= 1
            self.current_class = saved_cls
        out = []
        for r in rs:
            if closure:
                # writes to enclosing names are not visible (no nonlocal in the code under contract)
                pass
            r.st.env = dict(saved_env)
            if r.kind == "return": out.append(Res(r.st, r.val))
            elif r.kind == "normal": out.append(Res(r.st, V(NONE, "none")))
            else: out.append(r)
        return out

    # ------------------------------------------------------------------ contracts at call sites
    def contract_binds(self, c, args, kw, st):
        params = c.get("params") or []
        binds = {}
        for p, v in zip(params, args):
            binds[p] = v
        for p in params[len(args):]:
            if p in kw:
                binds[p] = kw[p]
            elif p in c.get("defaults", {}):
                binds[p] = self.spec_v(st, st, c["defaults"][p], {})
            else:
                raise Unsupported(f"missing argument {p} in call to {c['key']}")
        for p, t in c.get("types", {}).items():
            if p in binds and binds[p].ty is None:
                binds[p] = V(binds[p].t, t)
        return binds

    def apply_contract(self, st, key, args, kw, lineno):
        c = self.reg.contracts[key]
        binds = self.contract_binds(c, args, kw, st)
        for i, pre in enumerate(c.get("requires", [])):
            self.oblige(f"pre@call {key}: {clause_text(pre)} @L{lineno}", "pre@call", self.spec(st, st, clause_text(pre), binds), st, lineno)
        old = st
        out = []
        eff0 = c.get("effect")
        if eff0 and not self.spec_depth and self.effect_guards and eff0 in self.effect_guards:
            # the guard of a call effect must hold when the call starts (pre-state; the trace already contains the call)
            pre = st.copy()
            a0 = [binds[p_] for p_ in (c.get("params") or []) if p_ in binds] or list(args)
            ent = Effect(eff0, a0, lineno, pre.copy())
            pre.trace = list(pre.trace) + [ent]
            self.on_effect(pre, ent)
        outcomes = [("normal", None, c)] if not c.get("never_returns") else []
        for exc, xc in c.get("raises", {}).items():
            outcomes.append(("raise", exc, xc))
        for kind, exc, oc in outcomes:
            s2 = st.copy()
            if c.get("awaits"):
                s2 = self.interfere(s2, lineno)
            if kind == "raise":
                when = oc.get("when", []) if isinstance(oc, dict) else oc
                when = [when] if isinstance(when, str) else when
                for w in when:
                    self._abstract_trace = bool(TRACE_FN.search(clause_text(w)))
                    try:
                        s2.assume(self.spec(s2, old, clause_text(w), binds))
                    finally:
                        self._abstract_trace = False
                if not self.feasible(s2):
                    continue
                mods = oc.get("modifies", []) if isinstance(oc, dict) else []
                posts = oc.get("ensures", []) if isinstance(oc, dict) else []
                eff = oc.get("effect") if isinstance(oc, dict) else None
            else:
                mods, posts, eff = c.get("modifies", []), c.get("ensures", []), c.get("effect")
            self.apply_modifies(s2, old, mods, binds)
            b2 = dict(binds)
            res = None
            if kind == "raise" and isinstance(oc, dict) and oc.get("value"):
                b2["excval"] = self.spec_v(s2, old, oc["value"], b2)
            if kind == "normal":
                if c.get("fresh"):
                    res = self.alloc(s2, c["fresh"], c.get("returns", c["fresh"]))
                    if base_type(res.ty) in ("list", "set", "tuple") and c.get("empty"):
                        s2.heap["$elems"] = z3.Store(s2.field("$elems"), vr(res.t), z3.Empty(SeqV))
                else:
                    res = V(fresh_val("ret"), c.get("returns"))
                    rt = base_type(c.get("returns"))
                    self.assume_type(s2, res)
                b2["result"] = res
            lo = s2.front
            if kind == "normal" and c.get("fresh"):
                lo = old.front
            hi = fresh_int("front")
            s2.assume(hi >= s2.front)
            s2.front = hi
            for f_ in {w[0] for w in s2.writes[len(old.writes):]}:
                if f_ in s2.heap and not f_.startswith("$fs") and f_ != "$class" and f_ != "$dhas":
                    self.alloc_axiom(s2, f_)
            prop_guards = {nm: z3.Const(fresh_name("occ_" + nm), z3.BoolSort()) for nm in c.get("propagates", [])}
            self._local_trace = prop_guards
            saved_fr = self._fresh_range
            self._fresh_range = (lo, hi)
            try:
                for post in posts:
                    # a sub-term about the callee's own effect trace cannot be evaluated on the caller's trace: while the
                    # clause is assumed here, every such sub-term is an unconstrained fresh value (sound: assumes less)
                    self._abstract_trace = bool(TRACE_FN.search(clause_text(post)))
                    try:
                        s2.assume(self.spec(s2, old, clause_text(post), b2))
                    finally:
                        self._abstract_trace = False
            finally:
                self._fresh_range = saved_fr
                self._local_trace = {}
            if eff:
                eff_args = [binds[p_] for p_ in (c.get("params") or []) if p_ in binds] or list(args)     # in parameter order, keywords included
                s2.trace.append(Effect(eff, eff_args, lineno, s2.copy(), res=res))
                if eff != eff0:
                    self.on_effect(s2, s2.trace[-1])
            for nm in c.get("propagates", []):
                # an effect that may happen inside the callee (declared by its contract): an abstract trace entry whose guard
                # is the boolean the callee's own clauses about it were translated to
                s2.trace.append(Effect(nm, [], lineno, None, guard=prop_guards[nm], inner=("*multi*",)))
            if kind == "normal":
                if not self.feasible(s2):
                    continue
                out.append(Res(s2, res))
            else:
                excval = b2.get("excval")
                out.append(Res(s2, None, "raise", exc, excval))
        return out

    def assume_type(self, st, v):
        """dynamic tag facts implied by a declared static type"""
        t = v.t
        if v.ty and v.ty.startswith("opt:"):
            inner = V(t, v.ty[4:])
            s2 = State(); s2.heap = st.heap
            self.assume_type(s2, inner)
            if s2.pc:
                st.assume(z3.Or(Val.is_NoneV(t), z3.And(*s2.pc)))
            return
        ty = base_type(v.ty)
        if ty == "int": st.assume(Val.is_IntV(t))
        elif ty == "str": st.assume(Val.is_StrV(t))
        elif ty == "bool": st.assume(Val.is_BoolV(t))
        elif ty == "float": st.assume(Val.is_FloatV(t))
        elif ty == "bytes": st.assume(Val.is_BytesV(t))
        elif ty == "Path": st.assume(Val.is_PathV(t))
        elif ty == "none": st.assume(Val.is_NoneV(t))
        elif ty in self.reg.enums:
            st.assume(z3.Or(*[t == self.enum_member(ty, m).t for m, _ in self.reg.enums[ty]]))
        elif ty in ("list", "set", "tuple", "dict") or ty in self.reg.classes:
            st.assume(Val.is_RefV(t))
            if ty in ("list", "set", "tuple", "dict"):
                st.assume(z3.Select(st.field("$class"), vr(t)) == self.reg.classtag(ty))
                et = elem_type(v.ty) if ty != "dict" else None
                if et and not getattr(self, "_no_elem_typing", False) and not et.startswith("opt:") and (base_type(et) in self.reg.classes or base_type(et) in ("str", "bytes", "Path")):
                    # declared element class: every element carries the tag (heap typing, assumed on reads)
                    seq = z3.Select(st.field("$elems"), vr(t)); j = fresh_int("j")
                    rec = {"str": Val.is_StrV, "bytes": Val.is_BytesV, "Path": Val.is_PathV}.get(base_type(et), Val.is_RefV)
                    st.assume(qforall([j], z3.Implies(z3.And(0 <= j, j < z3.Length(seq)), rec(seq[j])), patterns=[seq[j]]))
            elif ty not in ("Mutex",):
                subs = self.reg.subclasses(ty)
                st.assume(z3.Or(*[z3.Select(st.field("$class"), vr(t)) == self.reg.classtag(c) for c in subs]))
        elif ty and ty.startswith("opt:"):
            inner = V(t, ty[4:])
            s2 = State(); s2.heap = st.heap
            self.assume_type(s2, inner)
            if s2.pc:
                st.assume(z3.Or(Val.is_NoneV(t), z3.And(*s2.pc)))

    def apply_modifies(self, st, old, mods, binds):
        self._pending_fs_hooks = []
        self._apply_modifies(st, old, mods, binds)
        for pv, ok_, ot_ in self._pending_fs_hooks:
            for h in self.fs_write_hooks:
                h(self, st, pv, ok_, ot_)
        self._pending_fs_hooks = []

    def _apply_modifies(self, st, old, mods, binds):
        for m in (mods or []):      # modifies=None: coroutine whose effects on shared state are covered by the interference at its await
            m = clause_text(m)
            if m.startswith("*."):
                self.havoc_heap_field(st, m[2:])
            elif m.startswith("elems(") or m.startswith("dict("):
                obj = self.spec_v(old, old, m[m.index("(") + 1:-1], binds)
                flds = ["$elems"] if m.startswith("elems(") else ["$dkeys", "$dmap", "$dhas"]
                for f in flds:
                    srt = field_sort(f).range()
                    st.write(f, vr(obj.t), z3.Const(fresh_name("hv"), srt))
            elif m.startswith("fs(") or m.startswith("fs_tree("):
                from .fsmodel import p_under
                pv = vp(self.spec_v(old, old, m[m.index("(") + 1:-1], binds).t)
                ok_, ot_ = st.field("$fs_kind"), st.field("$fs_text")
                if m.startswith("fs("):
                    self._pending_fs_hooks = getattr(self, "_pending_fs_hooks", []) + [(pv, ok_, ot_)]
                for f in ("$fs_kind", "$fs_text", "$fs_target"):
                    if m.startswith("fs("):
                        st.heap[f] = z3.Store(st.field(f), pv, z3.Const(fresh_name("hv"), field_sort(f).range()))
                        st.writes.append((f, pv))
                    else:
                        oldarr = st.field(f)
                        new = z3.Const(fresh_name("H_" + f), field_sort(f))
                        q = z3.Const(fresh_name("q"), PathS)
                        st.assume(qforall([q], z3.Implies(z3.Not(p_under(q, pv)), z3.Select(new, q) == z3.Select(oldarr, q)), patterns=[z3.Select(new, q)]))
                        st.heap[f] = new
                        st.writes.append((f, ("tree", pv)))
            elif m == "fs":
                for f in ("$fs_kind", "$fs_text", "$fs_target"):
                    st.havoc_field(f)
            else:
                objexpr, fld = m.rsplit(".", 1)
                obj = self.spec_v(old, old, objexpr, binds)
                st.write(fld, vr(obj.t), fresh_val("hv"))

    # ------------------------------------------------------------------ interference (await)
    def interfere(self, st, lineno):
        cfg = self.interference
        st = st.copy()
        self.nawaits += 1
        if not cfg:
            st.trace.append(Effect("await", [], lineno, None))
            return st
        binds = {k: v for k, v in st.env.items() if isinstance(v, V)}
        for e in cfg.get("guarantee", []):
            if clause_active(e, self.prop):
                self.oblige(f"guarantee@await L{lineno}: {clause_text(e)}", "stable", self.spec(st, self.entry_state, clause_text(e), binds), st, lineno)
        before = st.copy()
        for f in cfg.get("shared", []):
            self.havoc_heap_field(st, f)
            self.alloc_axiom(st, f)
        for e in cfg.get("rely", []):
            st.assume(self.spec(st, before, clause_text(e), binds))
        st.trace.append(Effect("await", [], lineno, None))
        return st
