"""Symbolic state, typed value wrapper, evaluation results."""
import z3
from .vals import *  # noqa


class V:
    """A symbolic Python value: z3 term of sort Val + static type (string or None).

    Static types: 'int','str','bool','float','bytes','Path','none', class names,
    'list[T]','set[T]','tuple[T]','dict[K,V]'."""
    __slots__ = ("t", "ty", "src")

    def __init__(self, t, ty=None, src=None):
        self.t = t
        self.ty = ty
        self.src = src      # (owner V, field name) when the value was read from a field

    def __repr__(self):
        return f"V({self.t}:{self.ty})"


def elem_type(ty):
    if ty and "[" in ty and ty.endswith("]"):
        inner = ty[ty.index("[") + 1:-1]
        if ty.startswith("dict["):
            depth = 0
            for k, c in enumerate(inner):
                if c == "[": depth += 1
                elif c == "]": depth -= 1
                elif c == "," and depth == 0:
                    return inner[k + 1:].strip()
            return None
        return inner
    return None


def key_type(ty):
    if ty and ty.startswith("dict[") and ty.endswith("]"):
        inner = ty[5:-1]
        depth = 0
        for k, c in enumerate(inner):
            if c == "[": depth += 1
            elif c == "]": depth -= 1
            elif c == "," and depth == 0:
                return inner[:k].strip()
    return None


def base_type(ty):
    if ty and ty.startswith("opt:"):
        ty = ty[4:]
    if ty and "[" in ty:
        return ty[:ty.index("[")]
    return ty


SPECIAL_SORTS = {
    "$elems": lambda: z3.ArraySort(Int, SeqV),          # list/tuple/set contents (iteration order)
    "$dkeys": lambda: z3.ArraySort(Int, SeqV),          # dict keys in insertion order
    "$dhas": lambda: z3.ArraySort(Int, z3.ArraySort(Val, z3.BoolSort())),   # dict membership (solver friendly)
    "$dmap": lambda: z3.ArraySort(Int, z3.ArraySort(Val, Val)),
    "$class": lambda: z3.ArraySort(Int, Int),
    "$fs_kind": lambda: z3.ArraySort(PathS, Int),       # 0 absent 1 file 2 dir 3 symlink
    "$fs_text": lambda: z3.ArraySort(PathS, z3.StringSort()),
    "$fs_target": lambda: z3.ArraySort(PathS, PathS),
}


def field_sort(name):
    if name in SPECIAL_SORTS:
        return SPECIAL_SORTS[name]()
    return z3.ArraySort(Int, Val)


class Effect:
    """entry of the ghost effect trace; `inner` lists the effect names a loop may have produced (loop summary)"""
    __slots__ = ("name", "args", "lineno", "st", "res", "inner", "guard", "orig")

    def __init__(self, name, args, lineno, st, res=None, inner=(), guard=None, orig=None):
        self.name, self.args, self.lineno, self.st, self.res, self.inner = name, args, lineno, st, res, tuple(inner)
        self.guard = guard      # z3 Bool: the effect happened on this (merged) path iff guard; None = always
        self.orig = orig or self

    def guarded(self, g):
        ng = g if self.guard is None else z3.And(self.guard, g)
        return Effect(self.name, self.args, self.lineno, self.st, self.res, self.inner, ng, self.orig)

    def g(self):
        return z3.BoolVal(True) if self.guard is None else self.guard


class State:
    def __init__(self):
        self.env = {}
        self.heap = {}
        self.pc = []
        self.trace = []        # list[Effect]
        self.reads = set()
        self.writes = []       # list[(field, obj term or None)]
        self.front = None      # z3 Int: next free address (allocation frontier)
        self.nalloc = 0
        self.ghost = {}        # name -> V (ghost variables of the function under proof)
        self.undecided = None  # reason string when the path met an unsupported construct
        self.defs = set()      # ids of definitional facts (about fresh constants): never guarded when states are merged

    def copy(self):
        s = State()
        s.env = dict(self.env)
        s.heap = dict(self.heap)
        s.pc = list(self.pc)
        s.trace = list(self.trace)
        s.reads = set(self.reads)
        s.writes = list(self.writes)
        s.nalloc = self.nalloc
        s.front = self.front
        s.ghost = dict(self.ghost)
        s.undecided = self.undecided
        s.defs = set(self.defs)
        return s

    def field(self, name):
        if name not in self.heap:
            self.heap[name] = z3.Const("H0_" + name, field_sort(name))
        return self.heap[name]

    def havoc_field(self, name):
        self.heap[name] = z3.Const(fresh_name("H_" + name), field_sort(name))
        self.writes.append((name, None))

    def read(self, name, obj_r):
        self.reads.add(name)
        t = z3.Select(self.field(name), obj_r)
        if name in ("$elems", "$dkeys", "$dhas", "$dmap"):
            t = z3.simplify(t)      # resolve select-over-store syntactically: keeps E-matching patterns applicable
        return t

    def write(self, name, obj_r, val):
        self.heap[name] = z3.Store(self.field(name), obj_r, val)
        self.writes.append((name, obj_r))

    def assume(self, f, definitional=False):
        self.pc.append(f)
        if definitional:
            self.defs.add(f.get_id())


class Res:
    """Outcome of evaluating an expression or executing a statement.
    kind: normal | return | raise | break | continue"""
    __slots__ = ("st", "val", "kind", "exc", "excval")

    def __init__(self, st, val=None, kind="normal", exc=None, excval=None):
        self.st, self.val, self.kind, self.exc, self.excval = st, val, kind, exc, excval

    @property
    def ok(self):
        return self.kind == "normal"


class Unsupported(Exception):
    pass


class Obligation:
    __slots__ = ("name", "kind", "goal", "pc", "lineno", "st", "info")

    def __init__(self, name, kind, goal, st, lineno=0, info=None):
        self.name, self.kind, self.goal, self.lineno, self.info = name, kind, goal, lineno, info
        self.pc = list(st.pc)
        self.st = st
