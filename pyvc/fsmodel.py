"""Filesystem ghost model (assumed contracts of pathlib / shutil primitives; DESIGN §4.2).

fs_kind : Path -> {0 absent, 1 file, 2 dir, 3 symlink};  fs_text : Path -> String;  fs_target : Path -> Path.
Each primitive is atomic and appends an effect to the ghost trace.  Paths are values of an
uninterpreted sort: `p / name` is injective in both arguments (axiom), parent/name are its inverses."""
import z3
from .state import *  # noqa
from .vals import *   # noqa

ABSENT, FILE, DIR, LINK = 0, 1, 2, 3
p_under = z3.Function("p_under", PathS, PathS, z3.BoolSort())     # q is p or lies below p
glob_match = z3.Function("glob_match", PathS, z3.StringSort(), PathS, z3.BoolSort())


def R(st, v=None):
    return [Res(st, v if v is not None else V(NONE, "none"))]


class FsMixin:
    def fk(self, st, p):
        st.reads.add("$fs_kind")
        return z3.Select(st.field("$fs_kind"), p)

    def ftarget(self, st, p):
        return z3.Select(st.field("$fs_target"), p)

    def fs_is_file(self, st, p):
        k = self.fk(st, p)
        return z3.Or(k == FILE, z3.And(k == LINK, self.fk(st, self.ftarget(st, p)) == FILE))

    def fs_is_dir(self, st, p):
        k = self.fk(st, p)
        return z3.Or(k == DIR, z3.And(k == LINK, self.fk(st, self.ftarget(st, p)) == DIR))

    def fs_exists(self, st, p):
        k = self.fk(st, p)
        return z3.Or(k == FILE, k == DIR, z3.And(k == LINK, self.fk(st, self.ftarget(st, p)) != ABSENT))

    def fs_pred(self, st, f, p):
        if f == "isfile": return self.fs_is_file(st, p)
        if f == "isdir": return self.fs_is_dir(st, p)
        if f == "issymlink": return self.fk(st, p) == LINK
        return self.fs_exists(st, p)

    def fs_set(self, st, p, kind=None, text=None, target=None):
        old_kind, old_text = st.field("$fs_kind"), st.field("$fs_text")
        self._fs_set(st, p, kind, text, target)
        for h in self.fs_write_hooks:
            h(self, st, p, old_kind, old_text)

    def _fs_set(self, st, p, kind=None, text=None, target=None):
        if kind is not None:
            st.heap["$fs_kind"] = z3.Store(st.field("$fs_kind"), p, kind if z3.is_expr(kind) else z3.IntVal(kind))
            st.writes.append(("$fs_kind", p))
        if text is not None:
            st.heap["$fs_text"] = z3.Store(st.field("$fs_text"), p, text)
            st.writes.append(("$fs_text", p))
        if target is not None:
            st.heap["$fs_target"] = z3.Store(st.field("$fs_target"), p, target)
            st.writes.append(("$fs_target", p))

    def fs_effect(self, st, name, args, lineno):
        st.trace.append(Effect(name, args, lineno, st.copy()))
        self.on_effect(st, st.trace[-1])

    def split(self, st, cond, yes, no):
        """two-way outcome split on a z3 condition"""
        out = []
        a = st.copy(); a.assume(cond)
        if self.feasible(a): out += yes(a)
        b = st.copy(); b.assume(z3.Not(cond))
        if self.feasible(b): out += no(b)
        return out

    # ---- queries
    def m_Path_is_file(self, st, recv, a, kw, lineno):
        return R(st, V(BoolV(self.fs_is_file(st, vp(recv.t))), "bool"))

    def m_Path_is_dir(self, st, recv, a, kw, lineno):
        return R(st, V(BoolV(self.fs_is_dir(st, vp(recv.t))), "bool"))

    def m_Path_exists(self, st, recv, a, kw, lineno):
        return R(st, V(BoolV(self.fs_exists(st, vp(recv.t))), "bool"))

    def m_Path_is_symlink(self, st, recv, a, kw, lineno):
        return R(st, V(BoolV(self.fk(st, vp(recv.t)) == LINK), "bool"))

    def m_Path_read_text(self, st, recv, a, kw, lineno):
        p = vp(recv.t)
        q = z3.If(self.fk(st, p) == LINK, self.ftarget(st, p), p)
        return self.split(st, self.fs_is_file(st, p),
                          lambda s: R(s, V(StrV(z3.Select(s.field("$fs_text"), q)), "str")),
                          lambda s: [Res(s, None, "raise", "FileNotFoundError")])

    # ---- updates
    def m_Path_unlink(self, st, recv, a, kw, lineno):
        p = vp(recv.t)
        k = self.fk(st, p)

        def yes(s):
            self.fs_effect(s, "unlink", [recv], lineno)
            self.fs_set(s, p, kind=ABSENT)
            return R(s)
        return self.split(st, z3.Or(k == FILE, k == LINK), yes, lambda s: [Res(s, None, "raise", "FileNotFoundError")])

    def m_Path_touch(self, st, recv, a, kw, lineno):
        p = vp(recv.t)
        k = self.fk(st, p)
        self.fs_effect(st, "touch", [recv], lineno)
        empty = z3.StringVal("")
        self.fs_set(st, p, kind=z3.If(k == ABSENT, FILE, k), text=z3.If(k == ABSENT, empty, z3.Select(st.field("$fs_text"), p)))
        return R(st)

    def m_Path_write_text(self, st, recv, a, kw, lineno):
        p = vp(recv.t)
        self.fs_effect(st, "write_text", [recv, a[0]], lineno)
        k = self.fk(st, p)
        q = z3.If(k == LINK, self.ftarget(st, p), p)
        self.fs_set(st, q, kind=FILE, text=vs(a[0].t))
        return R(st)

    def m_Path_mkdir(self, st, recv, a, kw, lineno):
        p = vp(recv.t)
        k = self.fk(st, p)
        exist_ok = kw.get("exist_ok")
        self.fs_effect(st, "mkdir", [recv], lineno)

        def create(s):
            self.fs_set(s, p, kind=z3.If(k == ABSENT, DIR, k))
            return R(s)
        if exist_ok is not None and z3.is_true(z3.simplify(self.truth(st, exist_ok))):
            return create(st)
        return self.split(st, k == ABSENT, create, lambda s: [Res(s, None, "raise", "OSError")])

    def m_Path_rename(self, st, recv, a, kw, lineno):
        p, q = vp(recv.t), vp(a[0].t)
        k = self.fk(st, p)

        def yes(s):
            self.fs_effect(s, "rename", [recv, a[0]], lineno)
            txt, tgt = z3.Select(s.field("$fs_text"), p), z3.Select(s.field("$fs_target"), p)
            self.fs_set(s, q, kind=k, text=txt, target=tgt)
            self.fs_set(s, p, kind=ABSENT)
            return R(s, a[0])
        return self.split(st, k != ABSENT, yes, lambda s: [Res(s, None, "raise", "FileNotFoundError")])

    def m_Path_replace(self, st, recv, a, kw, lineno):
        """os.replace: like rename, the destination is overwritten; recorded as a distinct effect"""
        p, q = vp(recv.t), vp(a[0].t)
        k = self.fk(st, p)

        def yes(s):
            self.fs_effect(s, "replace", [recv, a[0]], lineno)
            txt, tgt = z3.Select(s.field("$fs_text"), p), z3.Select(s.field("$fs_target"), p)
            self.fs_set(s, q, kind=k, text=txt, target=tgt)
            self.fs_set(s, p, kind=ABSENT)
            return R(s, a[0])
        return self.split(st, k != ABSENT, yes, lambda s: [Res(s, None, "raise", "FileNotFoundError")])

    def m_Path_symlink_to(self, st, recv, a, kw, lineno):
        p = vp(recv.t)
        k = self.fk(st, p)

        def yes(s):
            self.fs_effect(s, "symlink_to", [recv, a[0]], lineno)
            self.fs_set(s, p, kind=LINK, target=vp(a[0].t))
            return R(s)
        return self.split(st, k == ABSENT, yes, lambda s: [Res(s, None, "raise", "OSError")])

    def m_Path_relative_to(self, st, recv, a, kw, lineno):
        f = z3.Function("p_relative_to", PathS, PathS, PathS)
        p, q = vp(recv.t), vp(a[0].t)
        r = f(p, q)
        st.assume(p_joinp(q, r) == p)
        return R(st, V(Val.PathV(r), "Path"))

    def m_Path_glob(self, st, recv, a, kw, lineno):
        d, pat = vp(recv.t), vs(a[0].t)
        res = z3.Const(fresh_name("glob"), SeqV)
        k, k2 = fresh_int("k"), fresh_int("k")
        q = z3.Const(fresh_name("q"), PathS)
        kind = st.field("$fs_kind")
        n = z3.Length(res)
        st.assume(qforall([k], z3.Implies(z3.And(0 <= k, k < n),
                  z3.And(Val.is_PathV(res[k]), z3.Select(kind, vp(res[k])) != ABSENT, glob_match(d, pat, vp(res[k])))), patterns=[res[k]]))
        st.assume(qforall([k, k2], z3.Implies(z3.And(0 <= k, k < k2, k2 < n), res[k] != res[k2]), patterns=[z3.MultiPattern(res[k], res[k2])]))
        st.assume(qforall([q], z3.Implies(z3.And(z3.Select(kind, q) != ABSENT, glob_match(d, pat, q)),
                  z3.Contains(res, z3.Unit(Val.PathV(q)))), patterns=[glob_match(d, pat, q)]))
        gax = self.glob_axioms(d, a[0])
        for ax in gax:
            st.assume(ax)
        facts = self.seq_facts.setdefault(res.decl().name(), [])
        facts.append(lambda j: z3.Implies(z3.And(0 <= j, j < n), z3.And(Val.is_PathV(res[j]), z3.Select(kind, vp(res[j])) != ABSENT,
                                                                    glob_match(d, pat, vp(res[j])))))
        for ax in gax:      # definition of glob_match for this pattern, at the element
            if z3.is_quantifier(ax):
                facts.append(lambda j, ax=ax: z3.Implies(z3.And(0 <= j, j < n), z3.substitute_vars(ax.body(), vp(res[j]))))
        for h in self.glob_hooks:
            h(self, st, res, d, a[0])
        return R(st, self.new_list(st, res, "list[Path]"))

    def glob_axioms(self, d, patv):
        pat = z3.simplify(vs(patv.t))
        q = z3.Const(fresh_name("q"), PathS)
        if not z3.is_string_value(pat):
            return []
        s = pat.as_string()
        gm = glob_match(d, pat, q)
        if s.startswith("*.") and "/" not in s:
            suf = z3.StringVal(s[1:])
            return [qforall([q], gm == z3.And(p_parent(q) == d, z3.SuffixOf(suf, p_name(q)), q == p_join(d, p_name(q))), patterns=[gm])]
        if s == "*":
            return [qforall([q], gm == z3.And(p_parent(q) == d, q == p_join(d, p_name(q))), patterns=[gm])]
        if s == "*/*":
            return [qforall([q], gm == z3.And(p_parent(p_parent(q)) == d, q == p_join(p_join(d, p_name(p_parent(q))), p_name(q))), patterns=[gm])]
        parts = s.split("/")
        # fixed components and '*' components
        cur = q
        conds = []
        rebuilt = None
        for comp in reversed(parts):
            if comp != "*":
                conds.append(p_name(cur) == z3.StringVal(comp))
            cur = p_parent(cur)
        conds.append(cur == d)
        return [qforall([q], gm == z3.And(*conds), patterns=[gm])]

    def bi_rmtree(self, st, a, kw, n):
        p = vp(a[0].t)
        self.fs_effect(st, "rmtree", [a[0]], n.lineno)
        old = st.field("$fs_kind")
        new = z3.Const(fresh_name("H_$fs_kind"), field_sort("$fs_kind"))
        q = z3.Const(fresh_name("q"), PathS)
        st.assume(qforall([q], z3.Select(new, q) == z3.If(p_under(q, p), ABSENT, z3.Select(old, q)), patterns=[z3.Select(new, q)]))
        st.assume(p_under(p, p))
        st.heap["$fs_kind"] = new
        st.writes.append(("$fs_kind", ("tree", p)))
        return R(st)
