"""Discharge obligations: z3 (python API) first; `unknown` goes to cvc5 and the other z3 as SMT-LIB2."""
import os
import subprocess
import tempfile
import time
import z3

Z3_MS = int(os.environ.get("VERIF_Z3_MS", "10000"))
CLI_S = int(os.environ.get("VERIF_CLI_S", "30"))


def smt2_of(pc, goal):
    s = z3.Solver()
    s.add(*pc)
    s.add(z3.Not(goal))
    return s.to_smt2()


def run_cli(cmd, text, timeout):
    with tempfile.NamedTemporaryFile("w", suffix=".smt2", delete=False) as f:
        f.write(text)
        path = f.name
    try:
        p = subprocess.run(cmd + [path], capture_output=True, text=True, timeout=timeout + 5)
        out = (p.stdout or "").strip().splitlines()
        return out[0] if out else "unknown"
    except subprocess.TimeoutExpired:
        return "unknown"
    finally:
        os.unlink(path)


_qcache = {}
_scache = {}
_BUILTIN_KINDS = None


def symbols(e):
    """names of uninterpreted functions/constants of arity > 0, plus heap array constants, occurring in e"""
    k = e.get_id()
    if k in _scache and _scache[k][0].eq(e):
        return _scache[k][1]
    out, todo, seen = set(), [e], set()
    while todo:
        x = todo.pop()
        i = x.get_id()
        if i in seen:
            continue
        seen.add(i)
        if z3.is_app(x) and x.decl().kind() == z3.Z3_OP_UNINTERPRETED and (x.num_args() > 0 or z3.is_array(x)):
            out.add(x.decl().name())
        if z3.is_quantifier(x):
            todo.append(x.body())
        else:
            todo.extend(x.children())
    _scache[k] = (e, out)      # the expression is kept alive: z3 ids are reused after garbage collection
    return out


def has_quantifier(e):
    k = e.get_id()
    if k in _qcache and _qcache[k][0].eq(e):
        return _qcache[k][1]
    todo, seen, res = [e], set(), False
    while todo:
        x = todo.pop()
        i = x.get_id()
        if i in seen:
            continue
        seen.add(i)
        if z3.is_quantifier(x):
            res = True
            break
        todo.extend(x.children())
    _qcache[k] = (e, res)
    return res


def _check(pc, goal, ms, **opts):
    sol = z3.Solver()
    sol.set("timeout", ms)
    for k, v in opts.items():
        sol.set(k, v)
    sol.add(*pc)
    sol.add(z3.Not(goal))
    r = sol.check()
    return r, sol


def discharge(ob, z3_ms=None, cli_s=None, use_cli=True):
    """-> dict(status= 'proved'|'failed'|'unknown', backend, time, model)

    1. quantifier-free part of the path condition only (fewer assumptions: `unsat` is definitive);
    2. full path condition, E-matching then MBQI;
    3. SMT-LIB2 dump to cvc5 / z3-4.8;
    A model found in step 1 that survives step 2 as `unknown` is a *candidate* counterexample: it is
    reported as failed only if no back end proves the full query (the caller replays it)."""
    z3_ms = z3_ms or Z3_MS
    cli_s = cli_s or CLI_S
    t0 = time.time()
    qf = [f for f in ob.pc if not has_quantifier(f)]
    qs = [f for f in ob.pc if has_quantifier(f)]
    # relevance: a quantified assumption whose uninterpreted symbols do not occur anywhere else cannot
    # be instantiated usefully and is dropped (sound: fewer assumptions)
    used = set()
    for f in qf + [ob.goal]:
        used |= symbols(f)
    changed = True
    keep = []
    rest = list(qs)
    while changed:
        changed = False
        for f in list(rest):
            sy = symbols(f)
            if sy & used:
                keep.append(f); rest.remove(f); used |= sy; changed = True
    full = qf + keep
    quant = bool(keep)
    backend = "z3-5.1(api)"
    reason = None
    reasonA = None
    cand = None
    if quant:
        # A. full query, E-matching only (the usual way a quantified obligation is discharged)
        r, sol = _check(full, ob.goal, z3_ms, **{"smt.mbqi": False})
        if r == z3.unsat:
            return dict(status="proved", backend=backend + ",e-matching", time=time.time() - t0, model=None)
        reason = sol.reason_unknown() if r == z3.unknown else None
        reasonA = reason
    # B. quantifier-free part only (fewer assumptions: unsat is definitive; sat is definitive when nothing was dropped)
    # (run times of the string/sequence solver are heavy-tailed: a short restart portfolio over random seeds first)
    for seed, ms in ((0, z3_ms // 4), (1, z3_ms // 4), (2, z3_ms // 4), (3, z3_ms)):
        r, sol = _check(qf, ob.goal, ms, **{"smt.random_seed": seed})
        if r != z3.unknown:
            break
    if r == z3.unsat:
        return dict(status="proved", backend=backend, time=time.time() - t0, model=None)
    if r == z3.sat:
        cand = sol.model()
        if not quant:
            return dict(status="failed", backend=backend, time=time.time() - t0, model=cand)
    if quant:
        # C. full query with model-based quantifier instantiation (can also produce a genuine model)
        r2, sol2 = _check(full, ob.goal, z3_ms // 2)
        if r2 == z3.unsat:
            return dict(status="proved", backend=backend + ",mbqi", time=time.time() - t0, model=None)
        if r2 == z3.sat:
            return dict(status="failed", backend=backend + ",mbqi", time=time.time() - t0, model=sol2.model())
        reason = sol2.reason_unknown()
    if use_cli:
        try:
            text = smt2_of(full, ob.goal)
        except Exception:
            text = None
        if text:
            for name, cmd in (("cvc5-1.0.3", ["/usr/bin/cvc5", "--strings-exp", f"--tlimit={cli_s * 1000}"]),
                              ("z3-4.8.12", ["/usr/bin/z3", f"-T:{cli_s}"])):
                res = run_cli(cmd, text, cli_s)
                if res == "unsat":
                    return dict(status="proved", backend=name, time=time.time() - t0, model=None)
                if res == "sat":
                    return dict(status="failed", backend=name, time=time.time() - t0, model=cand)
    if quant and cand is None:
        # E. last resort: a long E-matching run (verdicts must not flip when the machine is busy); skipped when the
        #    quantifier-free part already has a model (the obligation is then most likely false)
        r, sol = _check(full, ob.goal, z3_ms * 4, **{"smt.mbqi": False})
        if r == z3.unsat:
            return dict(status="proved", backend=backend + ",e-matching(long)", time=time.time() - t0, model=None)
    if cand is not None and reasonA and "timeout" not in reasonA and "cancel" not in reasonA:
        # E-matching saturated without a refutation (no time-out involved) and the quantifier-free part has a model:
        # reported as a failed obligation; the model is a candidate input that the caller replays where it can
        return dict(status="failed", backend="z3-5.1(api) e-matching saturated (" + reasonA + "); model of the quantifier-free part",
                    time=time.time() - t0, model=cand, candidate=True, reason=reasonA)
    if cand is not None:
        # a model of the quantifier-free part only: NOT a refutation; the caller may try to replay it
        return dict(status="candidate", backend="z3-5.1(api) model of the quantifier-free part; quantified facts undecided",
                    time=time.time() - t0, model=cand, candidate=True, reason=reason)
    return dict(status="unknown", backend="z3+cvc5", time=time.time() - t0, model=None, reason=reason)


def model_summary(model, limit=40):
    if model is None:
        return None
    out = {}
    for d in model.decls():
        nm = d.name()
        if nm.startswith("arg_") or nm.startswith("ghost_") or nm.startswith("H0_") or nm.startswith("FRONTIER"):
            try:
                out[nm] = str(model[d])[:400]
            except Exception:
                pass
        if len(out) >= limit:
            break
    return out


def second_opinion(ob, seconds=15):
    """the full query (path condition and negated goal) as SMT-LIB2 to cvc5: 'unsat' confirms, 'sat' is a disagreement"""
    try:
        text = smt2_of(ob.pc, ob.goal)
    except Exception:
        return "unknown"
    return run_cli(["/usr/bin/cvc5", "--strings-exp", f"--tlimit={seconds * 1000}"], text, seconds)
