"""Expression evaluation (mixin of Engine).  Every ev_* returns list[Res]."""
import ast
import z3
from .state import *  # noqa
from .vals import *   # noqa

CONTAINER = ("list", "set", "tuple", "dict")


class ExprMixin:
    # ------------------------------------------------------------------ helpers
    def ev(self, st, n):
        m = getattr(self, "ev_" + type(n).__name__, None)
        if m is None:
            raise Unsupported(f"expression {type(n).__name__} at line {getattr(n, 'lineno', '?')}")
        return m(st, n)

    def evseq(self, st, nodes, k):
        """evaluate nodes left to right; call k(st, [V...]) -> list[Res] on each all-normal combination"""
        def go(st, i, acc):
            if i == len(nodes):
                return k(st, acc)
            out = []
            for r in self.ev(st, nodes[i]):
                if not r.ok:
                    out.append(r)
                else:
                    out += go(r.st, i + 1, acc + [r.val])
            return out
        return go(st, 0, [])

    def ev1(self, st, n):
        """evaluate a pure expression to a single V (merging branches with ite); state unchanged"""
        rs = self.ev(st.copy(), n)
        if not rs:          # every branch infeasible: the state itself is infeasible, any value will do
            return V(fresh_val("dead"), None)
        return self.merge(st, rs)

    def merge(self, base, rs):
        rs = [r for r in rs]
        if any(not r.ok for r in rs):
            raise Unsupported("impure/raising expression in a pure context")
        v = rs[-1].val
        t, ty = v.t, v.ty
        for r in reversed(rs[:-1]):
            extra = r.st.pc[len(base.pc):]
            t = z3.If(z3.And(*extra) if extra else z3.BoolVal(True), r.val.t, t)
            if r.val.ty != ty:
                ty = None
        return V(t, ty)

    def dotted(self, n):
        if isinstance(n, ast.Name):
            return n.id
        if isinstance(n, ast.Attribute):
            b = self.dotted(n.value)
            return None if b is None else b + "." + n.attr
        return None

    def const_value(self, st, dotted):
        c = self.reg.consts.get(dotted)
        if c is None:
            return None
        kind = c[0]
        if kind == "int": return V(IntV(c[1]), "int")
        if kind == "str": return V(StrV(c[1]), "str")
        if kind == "bool": return V(BoolV(c[1]), "bool")
        if kind == "bytes": return V(Val.BytesV(bytes_lit(c[1])), "bytes")
        if kind == "none": return V(NONE, "none")
        if kind == "enum": return self.enum_member(c[1], c[2])
        if kind == "class": return V(RefV(-1000 - self.reg.classtag(c[1])), "type:" + c[1])
        if kind == "term": return c[1]
        raise Unsupported(f"constant kind {kind}")

    def enum_member(self, cls, member):
        names = [m for m, _ in self.reg.enums[cls]]
        addr = -(self.reg.classtag(cls) * 100 + names.index(member) + 1)
        return V(RefV(addr), cls)

    def enum_axioms(self, st):
        """value/name fields of enum members (added once to the initial state)"""
        out = []
        for cls, members in self.reg.enums.items():
            for m, v in members:
                r = vr(self.enum_member(cls, m).t)
                if isinstance(v, int):
                    out.append(z3.Select(st.field("value"), r) == IntV(v))
                out.append(z3.Select(st.field("name"), r) == StrV(m))
                out.append(z3.Select(st.field("$class"), r) == self.reg.classtag(cls))
        return out

    def truth(self, st, v):
        """z3 Bool: Python truthiness of v"""
        t, ty = v.t, base_type(v.ty)
        if ty == "bool": return vb(t)
        if ty == "int": return vi(t) != 0
        if ty == "str": return z3.Length(vs(t)) > 0
        if ty == "none": return z3.BoolVal(False)
        if ty in ("list", "set", "tuple"): return z3.Length(self.elems(st, v)) > 0
        if ty == "dict": return z3.Length(self.dkeys(st, v)) > 0
        if ty in self.reg.classes or ty == "Path":
            return z3.Not(Val.is_NoneV(t)) if True else None
        cont = self.container_tags()
        cl = z3.Select(st.field("$class"), vr(t))
        return z3.If(Val.is_BoolV(t), vb(t),
               z3.If(Val.is_IntV(t), vi(t) != 0,
               z3.If(Val.is_StrV(t), z3.Length(vs(t)) > 0,
               z3.If(Val.is_NoneV(t), False,
               z3.If(Val.is_BytesV(t), z3.Length(vbs(t)) > 0,
               z3.If(Val.is_FloatV(t), vf(t) != 0,
               z3.If(z3.And(Val.is_RefV(t), z3.Or(cl == cont["list"], cl == cont["set"], cl == cont["tuple"])),
                     z3.Length(z3.Select(st.field("$elems"), vr(t))) > 0,
               z3.If(z3.And(Val.is_RefV(t), cl == cont["dict"]),
                     z3.Length(z3.Select(st.field("$dkeys"), vr(t))) > 0, True))))))))

    def container_tags(self):
        return {k: self.reg.classtag(k) for k in CONTAINER}

    def elems(self, st, v):
        return st.read("$elems", vr(v.t))

    def dkeys(self, st, v):
        return st.read("$dkeys", vr(v.t))

    def dhas(self, st, d, key_t):
        """z3 Bool: key in dict d"""
        return z3.Select(st.read("$dhas", vr(d.t)), key_t)

    def dict_link(self, st, d):
        """relate the iteration sequence of dict d to its membership array (assumed representation fact):
        the keys enumerated are exactly the members, without repetition"""
        keys, has = self.dkeys(st, d), st.read("$dhas", vr(d.t))
        j, j2 = fresh_int("j"), fresh_int("j")
        kv = fresh_val("lk")
        idx = z3.Function(fresh_name("kidx"), Val, Int)
        st.assume(qforall([j], z3.Implies(z3.And(0 <= j, j < z3.Length(keys)), z3.And(z3.Select(has, keys[j]), idx(keys[j]) == j)), patterns=[keys[j]]))
        st.assume(qforall([kv], z3.Implies(z3.Select(has, kv), z3.And(0 <= idx(kv), idx(kv) < z3.Length(keys), keys[idx(kv)] == kv)), patterns=[idx(kv)]))
        st.assume((z3.Length(keys) == 0) == (has == z3.K(Val, False)) if False else z3.BoolVal(True))

    def entry_fact(self, st, d, k, val):
        """z3 Bool or None: representation invariant of the dict-valued field d was read from, at entry (k, val)"""
        if d.src is None:
            return None
        owner, field = d.src
        txt = self.reg.dict_fact(base_type(owner.ty), field)
        if not txt:
            return None
        return self.spec(st, st, txt, {"_owner": owner, "_k": k, "_v": val})

    def touch_key(self, st, k):
        f = key_trig(k.t)
        st.assume(f)
        if f.get_id() not in self._gf_ids and not self.has_bound_var(f):
            self._gf_ids.add(f.get_id()); self.global_facts.append(f)

    def dmap(self, st, v):
        return st.read("$dmap", vr(v.t))

    def oblige(self, name, kind, goal, st, lineno=0, info=None):
        if self.spec_depth:
            return
        g = z3.simplify(goal) if z3.is_expr(goal) else z3.BoolVal(bool(goal))
        if z3.is_true(g):
            self.trivial.append((name, kind))
            return
        self.obligations.append(Obligation(name, kind, goal, st.copy(), lineno, info))

    def need_int(self, st, vals, lineno):
        vals = [v for v in vals if v.ty not in ("int",) or True]
        self.oblige(f"type-safety:int@L{lineno}", "type-safety", z3.And(*[z3.Or(Val.is_IntV(v.t), Val.is_BoolV(v.t)) if False else Val.is_IntV(v.t) for v in vals]), st, lineno)

    def alloc(self, st, cls, ty=None):
        """fresh object reference, distinct from every pre-existing and earlier-allocated object"""
        a = fresh_int("addr")
        st.assume(a == st.front, definitional=True)
        st.front = a + 1
        st.nalloc += 1
        v = V(RefV(a), ty or cls)
        st.heap["$class"] = z3.Store(st.field("$class"), a, self.reg.classtag(base_type(cls)))
        return v

    def old_object(self, st, t):
        """assume t (if a reference) was allocated before the function was entered"""
        st.assume(z3.Implies(Val.is_RefV(t), vr(t) < self.frontier))

    def new_list(self, st, seq, ty="list"):
        v = self.alloc(st, base_type(ty), ty)
        st.heap["$elems"] = z3.Store(st.field("$elems"), vr(v.t), seq)
        return v

    def new_dict(self, st, keys, mp, ty="dict", has=None):
        v = self.alloc(st, "dict", ty)
        st.heap["$dkeys"] = z3.Store(st.field("$dkeys"), vr(v.t), keys)
        st.heap["$dhas"] = z3.Store(st.field("$dhas"), vr(v.t), has if has is not None else z3.K(Val, False))
        st.heap["$dmap"] = z3.Store(st.field("$dmap"), vr(v.t), mp)
        return v

    # ------------------------------------------------------------------ atoms
    def ev_Constant(self, st, n):
        v = n.value
        if v is None: return [Res(st, V(NONE, "none"))]
        if isinstance(v, bool): return [Res(st, V(BoolV(v), "bool"))]
        if isinstance(v, int): return [Res(st, V(IntV(v), "int"))]
        if isinstance(v, str): return [Res(st, V(StrV(v), "str"))]
        if isinstance(v, bytes): return [Res(st, V(Val.BytesV(bytes_lit(v)), "bytes"))]
        if isinstance(v, float): return [Res(st, V(Val.FloatV(z3.RealVal(repr(v))), "float"))]
        if v is Ellipsis: return [Res(st, V(NONE, "none"))]
        raise Unsupported(f"constant {v!r}")

    def ev_Name(self, st, n):
        if n.id in st.env:
            x = st.env[n.id]
            if isinstance(x, V):
                return [Res(st, x)]
            if isinstance(x, tuple):          # caught exception bound by `except E as e`
                return [Res(st, V(z3.Const("exc_" + str(x[0]).replace(".", "_"), Val), "exc:" + str(x[0])))]
            # nested function used as a value (callback registration): opaque
            return [Res(st, V(z3.Const("closure_" + n.id, Val), "closure"))]
        if n.id in st.ghost:
            return [Res(st, st.ghost[n.id])]
        c = self.const_value(st, n.id)
        if c is not None:
            return [Res(st, c)]
        if not self.spec_depth and self.depth == 0 and n.id in getattr(self, "fn_locals", ()):
            return [Res(st, None, "raise", "UnboundLocalError")]      # a local of the function read before any binding
        raise Unsupported(f"unknown name {n.id} at line {getattr(n, 'lineno', '?')}")

    def ev_Attribute(self, st, n):
        if isinstance(n.value, ast.Name) and isinstance(st.env.get(n.value.id), tuple) and n.attr == "code":
            exc, val = st.env[n.value.id]       # SystemExit.code
            return [Res(st, val if val is not None else V(fresh_val("code"), None))]
        d = self.dotted(n)
        if d is not None and d.split(".")[0] not in st.env:
            c = self.const_value(st, d)
            if c is not None:
                return [Res(st, c)]
        out = []
        for r in self.ev(st, n.value):
            if not r.ok:
                out.append(r)
            else:
                out += self.getattr(r.st, r.val, n.attr, n.lineno if hasattr(n, "lineno") else 0)
        return out

    def getattr(self, st, obj, attr, lineno=0):
        ty = base_type(obj.ty)
        if ty and ty.startswith("type:"):
            c = self.const_value(st, ty[5:] + "." + attr)
            if c is not None:
                return [Res(st, c)]
        # property getters (inline or by contract)
        k = self.reg.lookup(ty, attr, self.properties)
        if k is not None:
            return self.call_function(st, k, [obj], {}, lineno, recv_ty=ty)
        if ty == "Path":
            return [Res(st, self.path_attr(st, obj, attr))]
        if ty in self.reg.classes and self.reg.field_type(ty, attr) is None and not self.declares_field(ty, attr) \
                and self.reg.lookup2(ty, attr, self.functions, self.reg.contracts):
            # bound method used as a value (callback): injective in the receiver
            bm = z3.Function("bound_method", Val, z3.StringSort(), Val)
            bm_self = z3.Function("bm_self", Val, Val)
            t = bm(obj.t, z3.StringVal(attr))
            st.assume(bm_self(t) == obj.t)
            return [Res(st, V(t, "method:" + attr))]
        if ty in self.reg.enums and attr in ("value", "name"):
            pass
        ft = self.reg.field_type(ty, attr)
        if ty in self.reg.classes and ft is None and ty not in self.reg.enums and self.strict_fields:
            raise Unsupported(f"attribute {ty}.{attr} not declared (line {lineno})")
        if obj.ty and obj.ty.startswith("opt:"):
            self.oblige(f"type-safety:not-None .{attr}@L{lineno}", "type-safety", Val.is_RefV(obj.t), st, lineno)
        t = st.read(attr, vr(obj.t))
        v = V(t, ft, src=(obj, attr))
        self.typed(st, v)     # heap typing invariant: assumed on reads, checked on writes
        return [Res(st, v)]

    def typed(self, st, v):
        """assume the dynamic-type facts implied by the static type of a value read from the heap
        (fields, container elements); registered as global facts so that clauses evaluated in
        scratch states see them too"""
        if isinstance(v, tuple):
            for x in v:
                self.typed(st, x)
            return v
        n0 = len(st.pc)
        if st.front is not None:
            st.assume(z3.Implies(Val.is_RefV(v.t), vr(v.t) < st.front))    # only allocated objects are stored in the heap
        if v.ty is not None:
            self.assume_type(st, v)
        for f in st.pc[n0:]:
            if f.get_id() not in self._gf_ids and not self.has_bound_var(f):
                self._gf_ids.add(f.get_id()); self.global_facts.append(f)
        return v

    def has_bound_var(self, f):
        return any(n.startswith("q_") or n.startswith("qk_") or n.startswith("k!") or n.startswith("j!") for n in self.free_names(f))

    def free_names(self, f):
        out, todo, seen = set(), [f], set()
        while todo:
            x = todo.pop()
            if x.get_id() in seen: continue
            seen.add(x.get_id())
            if z3.is_const(x) and x.decl().kind() == z3.Z3_OP_UNINTERPRETED:
                out.add(x.decl().name())
            todo.extend(x.children())
        return out

    def declares_field(self, ty, attr):
        return any(attr in self.reg.classes.get(c, {}).get("fields", {}) for c in self.reg.mro(ty))

    def path_attr(self, st, obj, attr):
        p = vp(obj.t)
        if attr == "parent": return V(Val.PathV(p_parent(p)), "Path")
        if attr == "name": return V(StrV(p_name(p)), "str")
        if attr == "parents": return V(obj.t, "pathparents")
        raise Unsupported(f"Path.{attr}")

    # ------------------------------------------------------------------ operators
    def ev_BoolOp(self, st, n):
        is_and = isinstance(n.op, ast.And)

        def go(st, vals):
            out = []
            for r in self.ev(st, vals[0]):
                if not r.ok or len(vals) == 1:
                    out.append(r)
                    continue
                t = self.truth(r.st, r.val)
                cont, stop = (t, z3.Not(t)) if is_and else (z3.Not(t), t)
                s1 = r.st.copy(); s1.assume(stop)
                if self.feasible(s1): out.append(Res(s1, r.val))
                s2 = r.st.copy(); s2.assume(cont)
                self.narrow(s2, vals[0], is_and)      # isinstance() known true (and) / `not isinstance()` known false (or) from here on
                if self.feasible(s2): out += go(s2, vals[1:])
            return out
        rs = go(st, n.values)
        return self.try_merge(st, rs)

    def try_merge(self, st, rs):
        """merge results of a pure expression into one ite value (keeps the number of paths small)"""
        if len(rs) > 1 and self.spec_depth and all(r.ok for r in rs):
            return [Res(st, self.merge(st, rs))]       # clauses are pure: plain ite over the branch conditions
        if len(rs) > 1 and all(r.ok and not r.st.undecided for r in rs) and self.merging:
            tys = {base_type(r.val.ty) for r in rs if r.val.ty is not None}
            if len(tys) <= 1:
                m = self.merge_states([r.st for r in rs], values=[r.val for r in rs])
                if m is not None:
                    return [Res(m[0], m[1])]
        if len(rs) > 1 and all(r.ok and self.same_state(st, r.st) and len(r.st.pc) <= len(st.pc) + 1 for r in rs):
            return [Res(st, self.merge(st, rs))]
        return rs

    def same_state(self, a, b):
        return (len(a.trace) == len(b.trace) and len(a.writes) == len(b.writes) and a.nalloc == b.nalloc
                and a.undecided == b.undecided
                and all(a.heap.get(k) is b.heap.get(k) or (k in a.heap and k in b.heap and a.heap[k].eq(b.heap[k]))
                        for k in set(a.heap) | set(b.heap) if k in a.heap))

    def ev_IfExp(self, st, n):
        out = []
        for r in self.ev(st, n.test):
            if not r.ok:
                out.append(r); continue
            t = self.truth(r.st, r.val)
            s1 = r.st.copy(); s1.assume(t)
            s2 = r.st.copy(); s2.assume(z3.Not(t))
            rs = []
            if self.feasible(s1): rs += self.ev(s1, n.body)
            if self.feasible(s2): rs += self.ev(s2, n.orelse)
            out += self.try_merge(r.st, rs)
        return out

    def ev_UnaryOp(self, st, n):
        out = []
        for r in self.ev(st, n.operand):
            if not r.ok:
                out.append(r); continue
            if isinstance(n.op, ast.Not):
                out.append(Res(r.st, V(BoolV(z3.Not(self.truth(r.st, r.val))), "bool")))
            elif isinstance(n.op, ast.USub):
                if r.val.ty == "float":
                    out.append(Res(r.st, V(Val.FloatV(-vf(r.val.t)), "float")))
                else:
                    self.need_int(r.st, [r.val], n.lineno)
                    out.append(Res(r.st, V(IntV(-vi(r.val.t)), "int")))
            else:
                raise Unsupported(f"unary operator at line {n.lineno}")
        return out

    def ev_BinOp(self, st, n):
        return self.evseq(st, [n.left, n.right], lambda s, vs: self.binop(s, n.op, vs[0], vs[1], n.lineno))

    def binop(self, st, op, a, b, lineno):
        ta, tb = base_type(a.ty), base_type(b.ty)
        # user-defined operators
        dunder = {ast.BitAnd: "__and__", ast.Mult: "__mul__", ast.BitOr: "__or__", ast.Sub: "__sub__", ast.Add: "__add__"}.get(type(op))
        if dunder and ta in self.reg.classes:
            k = self.reg.lookup2(ta, dunder, self.functions, self.reg.contracts)
            if k:
                return self.call_function(st, k, [a, b], {}, lineno, recv_ty=ta)
        if isinstance(op, ast.Div) and ta == "Path":
            if tb == "str":
                return [Res(st, V(Val.PathV(p_join(vp(a.t), vs(b.t))), "Path"))]
            if tb == "Path":
                return [Res(st, V(Val.PathV(p_joinp(vp(a.t), vp(b.t))), "Path"))]
            raise Unsupported(f"Path / {tb} at line {lineno}")
        if isinstance(op, ast.Add) and ta == "str" and tb == "str":
            return [Res(st, V(StrV(z3.Concat(vs(a.t), vs(b.t))), "str"))]
        if isinstance(op, ast.Add) and "bytes" in (ta, tb) and ta in ("bytes", None) and tb in ("bytes", None):
            if ta != tb and not self.spec_depth:      # one operand statically untyped: it must be bytes too
                self.oblige(f"type-safety:bytes@L{lineno}", "type-safety", z3.And(Val.is_BytesV(a.t), Val.is_BytesV(b.t)), st, lineno)
            return [Res(st, V(Val.BytesV(z3.Concat(vbs(a.t), vbs(b.t))), "bytes"))]
        if isinstance(op, ast.Add) and ta in ("list", "tuple") and tb in ("list", "tuple"):
            s2 = st
            v = self.new_list(s2, z3.Concat(self.elems(s2, a), self.elems(s2, b)), a.ty)
            return [Res(s2, v)]
        if isinstance(op, ast.Mod) and ta == "str":
            return [Res(st, self.str_format(st, a, [b]))]
        if ta == "float" or tb == "float":
            x = vf(a.t) if ta == "float" else z3.ToReal(vi(a.t))
            y = vf(b.t) if tb == "float" else z3.ToReal(vi(b.t))
            r = {ast.Add: lambda: x + y, ast.Sub: lambda: x - y, ast.Mult: lambda: x * y}.get(type(op))
            if r is None: raise Unsupported(f"float operator at line {lineno}")
            return [Res(st, V(Val.FloatV(r()), "float"))]
        self.need_int(st, [a, b], lineno)
        x, y = vi(a.t), vi(b.t)
        if isinstance(op, ast.Add): v = x + y
        elif isinstance(op, ast.Sub): v = x - y
        elif isinstance(op, ast.Mult): v = x * y
        else:
            raise Unsupported(f"binary operator {type(op).__name__} at line {lineno}")
        return [Res(st, V(IntV(v), "int"))]

    def str_format(self, st, fmt, args):
        """'%' formatting and str.format: result is an uninterpreted string of (fmt, args) — only used for messages/names"""
        f = z3.Function(f"fmt{len(args)}", *([z3.StringSort()] + [Val] * len(args) + [z3.StringSort()]))
        return V(StrV(f(vs(fmt.t), *[a.t for a in args])), "str")

    def py_eq(self, st, a, b, lineno=0):
        """z3 Bool for Python a == b (value semantics for scalars/paths, identity for objects without __eq__)"""
        ta, tb = base_type(a.ty), base_type(b.ty)
        if ta in ("list", "tuple") and tb in ("list", "tuple"):
            if self.spec_depth:
                return self.elems(st, a) == self.elems(st, b)
            # Python compares lists element by element with ==, which is coarser than identity of values (1 == 1.0 == True,
            # objects with __eq__): identical sequences are equal, equal lists have the same length - nothing more is assumed
            le = z3.Function("py_list_equal", SeqV, SeqV, z3.BoolSort())
            sa, sb = self.elems(st, a), self.elems(st, b)
            st.assume(z3.Implies(sa == sb, le(sa, sb)))
            st.assume(z3.Implies(le(sa, sb), z3.Length(sa) == z3.Length(sb)))
            return le(sa, sb)
        for t in (ta, tb):
            if t in self.reg.classes and self.reg.lookup(t, "__eq__", self.functions):
                raise Unsupported(f"== on class {t} with __eq__ (line {lineno})")
        if self.spec_depth:
            return a.t == b.t       # in clauses `==` on untyped operands is identity of values; py_equal(a, b) names Python's ==
        if ta is None and tb is None and not (z3.is_app(a.t) and a.t.decl().name() in ("NoneV", "IntV", "StrV", "BoolV")) \
                and not (z3.is_app(b.t) and b.t.decl().name() in ("NoneV", "IntV", "StrV", "BoolV")):
            # both operands statically untyped (may be containers or objects with __eq__): Python's == is a ghost predicate,
            # reflexive and agreeing with identity on scalars
            pe = z3.Function("py_equal", Val, Val, z3.BoolSort())
            st.assume(z3.Implies(a.t == b.t, pe(a.t, b.t)))
            return pe(a.t, b.t)
        if ta in ("int", "float", "bool") or tb in ("int", "float", "bool"):
            # numbers compare by value across int / float / bool (1 == 1.0 == True)
            def isnum(v): return z3.Or(Val.is_IntV(v.t), Val.is_FloatV(v.t), Val.is_BoolV(v.t))
            def num(v): return z3.If(Val.is_FloatV(v.t), vf(v.t), z3.If(Val.is_BoolV(v.t), z3.If(vb(v.t), z3.RealVal(1), z3.RealVal(0)), z3.ToReal(vi(v.t))))
            return z3.If(z3.And(isnum(a), isnum(b)), num(a) == num(b), a.t == b.t)
        return a.t == b.t

    def ev_Compare(self, st, n):
        if len(n.ops) != 1:
            # a < b < c  ->  (a < b) and (b < c), operands are pure in the code under contract
            parts = []
            left = n.left
            for op, right in zip(n.ops, n.comparators):
                parts.append(ast.copy_location(ast.Compare(left=left, ops=[op], comparators=[right]), n))
                left = right
            return self.ev(st, ast.copy_location(ast.BoolOp(op=ast.And(), values=parts), n))
        op = n.ops[0]
        return self.evseq(st, [n.left, n.comparators[0]], lambda s, vs: self.compare(s, op, vs[0], vs[1], n.lineno))

    def compare(self, st, op, a, b, lineno):
        ta, tb = base_type(a.ty), base_type(b.ty)
        if isinstance(op, (ast.Is, ast.IsNot)):
            e = a.t == b.t
            return [Res(st, V(BoolV(z3.Not(e) if isinstance(op, ast.IsNot) else e), "bool"))]
        if isinstance(op, (ast.Eq, ast.NotEq)):
            e = self.py_eq(st, a, b, lineno)
            return [Res(st, V(BoolV(z3.Not(e) if isinstance(op, ast.NotEq) else e), "bool"))]
        if isinstance(op, (ast.In, ast.NotIn)):
            e = self.contains(st, b, a, lineno)
            return [Res(st, V(BoolV(z3.Not(e) if isinstance(op, ast.NotIn) else e), "bool"))]
        dunder = {ast.Lt: "__lt__", ast.LtE: "__le__", ast.Gt: "__gt__", ast.GtE: "__ge__"}[type(op)]
        if ta in self.reg.classes:
            k = self.reg.lookup2(ta, dunder, self.functions, self.reg.contracts)
            if k:
                return self.call_function(st, k, [a, b], {}, lineno, recv_ty=ta)
            raise Unsupported(f"{dunder} on {ta} (line {lineno})")
        if ta == "float" or tb == "float":
            x = vf(a.t) if ta == "float" else z3.ToReal(vi(a.t))
            y = vf(b.t) if tb == "float" else z3.ToReal(vi(b.t))
        elif (ta is None and tb in ("int", None)) or (tb is None and ta == "int"):
            # statically untyped operand(s): int or float decided by the dynamic tag
            isnum = lambda v: z3.Or(Val.is_IntV(v.t), Val.is_FloatV(v.t))   # noqa
            self.oblige(f"type-safety:number@L{lineno}", "type-safety", z3.And(isnum(a), isnum(b)), st, lineno)
            x = z3.If(Val.is_FloatV(a.t), vf(a.t), z3.ToReal(vi(a.t)))
            y = z3.If(Val.is_FloatV(b.t), vf(b.t), z3.ToReal(vi(b.t)))
        elif ta == "bytes" and tb == "bytes":
            raise Unsupported("bytes ordering")
        else:
            self.need_int(st, [a, b], lineno)
            x, y = vi(a.t), vi(b.t)
        e = {ast.Lt: x < y, ast.LtE: x <= y, ast.Gt: x > y, ast.GtE: x >= y}[type(op)]
        return [Res(st, V(BoolV(e), "bool"))]

    def contains(self, st, cont, item, lineno):
        ty = base_type(cont.ty)
        if ty in ("list", "set", "tuple"):
            return z3.Contains(self.elems(st, cont), z3.Unit(item.t))
        if ty == "dict":
            self.touch_key(st, item)
            return self.dhas(st, cont, item.t)
        if ty == "str":
            return z3.Contains(vs(cont.t), vs(item.t))
        if ty is None or ty in self.reg.classes or (ty or "").startswith("type:"):
            # membership in a value of unknown / user-defined container type (e.g. `x in EnumClass`): ghost predicate
            f = z3.Function("contains_dyn", Val, Val, z3.BoolSort())
            return f(cont.t, item.t)
        raise Unsupported(f"'in' on {cont.ty} at line {lineno}")

    def ev_JoinedStr(self, st, n):
        parts = []
        for v in n.values:
            if isinstance(v, ast.Constant):
                parts.append(v)
            elif isinstance(v, ast.FormattedValue):
                parts.append(v.value)
        def k(s, vs):
            ss = [self.to_str(s, v) for v in vs]
            if not ss:
                return [Res(s, V(StrV(""), "str"))]
            return [Res(s, V(StrV(ss[0] if len(ss) == 1 else z3.Concat(*ss)), "str"))]
        return self.evseq(st, parts, k)

    def to_str(self, st, v):
        """z3 String for str(v)"""
        ty = base_type(v.ty)
        if ty == "str": return vs(v.t)
        if ty == "int": return str_of_int(vi(v.t))
        if ty == "Path": return p_str(vp(v.t))
        f = z3.Function("str_of_val", Val, z3.StringSort())
        return z3.If(Val.is_StrV(v.t), vs(v.t), z3.If(Val.is_IntV(v.t), str_of_int(vi(v.t)),
                     z3.If(Val.is_PathV(v.t), p_str(vp(v.t)), f(v.t))))

    def ev_Subscript(self, st, n):
        if isinstance(n.slice, ast.Slice):
            return self.ev_slice(st, n)
        return self.evseq(st, [n.value, n.slice], lambda s, vs: self.subscript(s, vs[0], vs[1], n.lineno))

    def subscript(self, st, c, k, lineno):
        ty = base_type(c.ty)
        if ty == "pathparents":
            kk = z3.simplify(vi(k.t))
            if not z3.is_int_value(kk):
                raise Unsupported("Path.parents with a computed index")
            p = vp(c.t)
            for _ in range(kk.as_long() + 1):
                p = p_parent(p)
            return [Res(st, V(Val.PathV(p), "Path"))]
        if ty in ("list", "tuple"):
            self.need_int(st, [k], lineno)
            seq = self.elems(st, c)
            i = vi(k.t)
            n = z3.Length(seq)
            idx = z3.If(i < 0, n + i, i)
            ok = st.copy(); ok.assume(z3.And(idx >= 0, idx < n))
            bad = st.copy(); bad.assume(z3.Not(z3.And(idx >= 0, idx < n)))
            out = []
            if self.feasible(ok): out.append(Res(ok, self.typed(ok, V(seq[idx], elem_type(c.ty)))))
            if self.feasible(bad): out.append(Res(bad, None, "raise", "IndexError"))
            return out
        if ty == "dict":
            self.touch_key(st, k)
            has = self.dhas(st, c, k.t)
            ok = st.copy(); ok.assume(has)
            bad = st.copy(); bad.assume(z3.Not(has))
            out = []
            if self.feasible(ok):
                val = self.typed(ok, V(z3.Select(self.dmap(ok, c), k.t), elem_type(c.ty)))
                f = self.entry_fact(ok, c, k, val)
                if f is not None: ok.assume(f)
                out.append(Res(ok, val))
            if self.feasible(bad): out.append(Res(bad, None, "raise", "KeyError"))
            return out
        kk = self.reg.lookup2(ty, "__getitem__", self.functions, self.reg.contracts) if ty else None
        if kk:
            return self.call_function(st, kk, [c, k], {}, lineno, recv_ty=ty)
        raise Unsupported(f"subscript on {c.ty} at line {lineno}")

    def ev_slice(self, st, n):
        sl = n.slice
        if sl.step is not None:
            raise Unsupported("slice step")
        lo = sl.lower or ast.Constant(value=0)
        nodes = [n.value, lo] + ([sl.upper] if sl.upper is not None else [])

        def k(s, vs):
            c = vs[0]
            if base_type(c.ty) not in ("list", "tuple"):
                raise Unsupported(f"slice of {c.ty}")
            seq = self.elems(s, c); ln = z3.Length(seq)
            def norm(v):
                i = vi(v.t)
                j = z3.If(i < 0, ln + i, i)
                return z3.If(j < 0, 0, z3.If(j > ln, ln, j))
            a = norm(vs[1]); b = norm(vs[2]) if len(vs) > 2 else ln
            sub = self.subseq(s, seq, a, z3.If(b > a, b - a, 0))
            return [Res(s, self.new_list(s, sub, c.ty))]
        return self.evseq(st, nodes, k)

    def ev_Tuple(self, st, n):
        return self.evseq(st, n.elts, lambda s, vs: [Res(s, self.new_list(s, self.mkseq(vs), "tuple"))])

    def ev_List(self, st, n):
        return self.evseq(st, n.elts, lambda s, vs: [Res(s, self.new_list(s, self.mkseq(vs), "list" + (f"[{vs[0].ty}]" if vs and vs[0].ty else "")))])

    def ev_Set(self, st, n):
        return self.evseq(st, n.elts, lambda s, vs: [Res(s, self.new_list(s, self.mkseq(vs), "set"))])

    def subseq(self, st, seq, start, length):
        """fresh sequence equal to seq[start:start+length], with the element-wise consequences stated explicitly"""
        res = z3.Const(fresh_name("sub"), SeqV)
        k = fresh_int("k")
        st.assume(res == z3.SubSeq(seq, start, length), definitional=True)
        st.assume(z3.Implies(z3.And(start >= 0, length >= 0, start + length <= z3.Length(seq)), z3.Length(res) == length), definitional=True)
        st.assume(qforall([k], z3.Implies(z3.And(0 <= k, k < length, start >= 0, start + length <= z3.Length(seq)), res[k] == seq[k + start]),
                          patterns=[res[k]]), definitional=True)
        return res

    def mkseq(self, vs):
        if not vs:
            return z3.Empty(SeqV)
        us = [z3.Unit(v.t) for v in vs]
        return us[0] if len(us) == 1 else z3.Concat(*us)

    def ev_Dict(self, st, n):
        if any(k is None for k in n.keys):
            raise Unsupported("dict unpacking")
        nodes = [x for kv in zip(n.keys, n.values) for x in kv]

        def k(s, vs):
            keys, mp, has = z3.Empty(SeqV), z3.K(Val, NONE), z3.K(Val, False)
            for i in range(0, len(vs), 2):
                keys = z3.Concat(keys, z3.Unit(vs[i].t)) if i else z3.Unit(vs[i].t)   # literal keys are distinct in the code under contract
                mp = z3.Store(mp, vs[i].t, vs[i + 1].t)
                has = z3.Store(has, vs[i].t, True)
            return [Res(s, self.new_dict(s, keys, mp, "dict", has=has))]
        return self.evseq(st, nodes, k)

    def ev_NamedExpr(self, st, n):
        out = []
        for r in self.ev(st, n.value):
            if r.ok:
                r.st.env[n.target.id] = r.val
            out.append(r)
        return out

    def ev_Await(self, st, n):
        out = []
        n0 = len(st.trace)
        for r in self.ev(st, n.value):
            if not r.ok:
                out.append(r)      # the awaited coroutine raised: interference already applied by the callee contract
                continue
            if any(e.name == "await" for e in r.st.trace[n0:]):
                out.append(r)      # the callee contract (awaits=True) already applied the interference
                continue
            out.append(Res(self.interfere(r.st, n.lineno), r.val))
        return out

    def ev_Lambda(self, st, n):
        v = V(z3.Const(fresh_name("lambda"), Val), "lambda")
        self.lambdas[v.t.decl().name()] = n
        return [Res(st, v)]

    def ev_ListComp(self, st, n):
        try:
            return self.comprehension(st.copy(), n, "list")
        except Unsupported:
            return self.comp_as_loop(st, n, "list")

    def ev_DictComp(self, st, n):
        return self.comp_as_loop(st, n, "dict")

    def comp_as_loop(self, st, n, kind):
        """[f(x) for x in xs if c]  ==  _comp = []; for x in xs: if c: _comp.append(f(x))   (exact desugaring;
        the loop may carry an invariant from the sidecar, keyed by the target text, with `_comp` the accumulator)"""
        if len(n.generators) != 1:
            raise Unsupported("nested comprehension")
        g = n.generators[0]
        acc = "_comp"
        if kind == "dict":
            body = ast.Assign(targets=[ast.Subscript(value=ast.Name(id=acc, ctx=ast.Load()), slice=n.key, ctx=ast.Store())], value=n.value)
        else:
            body = ast.Expr(value=ast.Call(func=ast.Attribute(value=ast.Name(id=acc, ctx=ast.Load()), attr="add" if kind == "set" else "append", ctx=ast.Load()),
                                           args=[n.elt], keywords=[]))
        for c in reversed(g.ifs):
            body = ast.If(test=c, body=[body], orelse=[])
        loop = ast.For(target=g.target, iter=g.iter, body=[body], orelse=[])
        for x in ast.walk(loop):
            x.lineno = n.lineno; x.col_offset = 0; x.end_lineno = n.lineno; x.end_col_offset = 0
        saved = {k: st.env.get(k) for k in [acc] + [t.id for t in ast.walk(g.target) if isinstance(t, ast.Name)]}
        st.env[acc] = self.new_dict(st, z3.Empty(SeqV), z3.K(Val, NONE), "dict") if kind == "dict" else self.new_list(st, z3.Empty(SeqV), kind)
        out = []
        for r in self.ex_For(st, loop):
            if r.ok:
                val = r.st.env.get(acc)
                for k, v in saved.items():      # comprehension variables do not leak
                    if v is None: r.st.env.pop(k, None)
                    else: r.st.env[k] = v
                out.append(Res(r.st, val))
            else:
                out.append(r)
        return out

    def ev_SetComp(self, st, n):
        try:
            return self.comprehension(st.copy(), n, "set")
        except Unsupported:
            return self.comp_as_loop(st, n, "set")

    def ev_GeneratorExp(self, st, n):
        # (a generator expression is consumed at once by its only user in the verified code: list semantics)
        try:
            return self.comprehension(st.copy(), n, "list")
        except Unsupported:
            return self.comp_as_loop(st, n, "list")

    def comprehension(self, st, n, kind):
        """[f(x) for x in xs if c(x)] with pure f, c: result is a fresh list constrained pointwise when
        there is no filter; with a filter, a fresh list characterised by the registered comprehension spec"""
        if len(n.generators) != 1 or n.generators[0].is_async:
            raise Unsupported("nested comprehension")
        g = n.generators[0]
        out = []
        for r in self.ev(st, g.iter):
            if not r.ok:
                out.append(r); continue
            s = r.st
            it = self.iter_seq(s, r.val, g.iter)
            res = z3.Const(fresh_name("comp"), SeqV)
            k = fresh_int("k")
            # element expression evaluated on a symbolic element
            s2 = s.copy()
            self.bind_target(s2, g.target, it.item(k))
            if not g.ifs:
                ev = self.ev1(s2, n.elt)
                s.assume(z3.Length(res) == it.length)
                s.assume(qforall([k], z3.Implies(z3.And(0 <= k, k < it.length), res[k] == ev.t), patterns=[res[k]]))
                out.append(Res(s, self.new_list(s, res, kind + (f"[{ev.ty}]" if ev.ty else ""))))
            else:
                if not (isinstance(n.elt, ast.Name) or isinstance(n.elt, ast.Tuple)):
                    raise Unsupported("filtered comprehension with a mapped element")
                cond = z3.And(*[self.truth(s2, self.ev1(s2, c)) for c in g.ifs])
                ev = self.ev1(s2, n.elt)
                # res = filter(cond, map(elt, it)): order preserving subsequence; characterised by
                # membership + sortedness w.r.t. source index via a ghost index map
                idx = z3.Function(fresh_name("fidx"), Int, Int)
                j = fresh_int("j")
                s.assume(z3.Length(res) <= it.length)
                s.assume(qforall([j], z3.Implies(z3.And(0 <= j, j < z3.Length(res)),
                         z3.And(0 <= idx(j), idx(j) < it.length,
                                z3.substitute(cond, (k, idx(j))), res[j] == z3.substitute(ev.t, (k, idx(j))))), patterns=[res[j]]))
                j2 = fresh_int("j")
                s.assume(qforall([j, j2], z3.Implies(z3.And(0 <= j, j < j2, j2 < z3.Length(res)), idx(j) < idx(j2)), patterns=[z3.MultiPattern(idx(j), idx(j2))]))
                inv = z3.Function(fresh_name("finv"), Int, Int)
                s.assume(qforall([k], z3.Implies(z3.And(0 <= k, k < it.length, cond),
                         z3.And(0 <= inv(k), inv(k) < z3.Length(res), idx(inv(k)) == k)), patterns=[inv(k)]))
                self.comp_info[res.decl().name()] = (it, cond, k)
                out.append(Res(s, self.new_list(s, res, kind + (f"[{ev.ty}]" if ev.ty else ""))))
        return out
