"""Statement execution (mixin of Engine).  Every ex_* returns list[Res]."""
import ast
import z3
from .state import *  # noqa
from .vals import *   # noqa


class Iter:
    """abstraction of an iterable: length + item(k) -> V (or tuple of V for zip/items/enumerate)"""
    def __init__(self, length, item, src=None, unchanged=None):
        self.length, self.item, self.src, self.unchanged = length, item, src, unchanged


class StmtMixin:
    def block(self, st, stmts):
        cur = [Res(st)]
        for s in stmts:
            nxt = []
            for r in cur:
                if not r.ok or r.st.undecided:
                    nxt.append(r); continue
                try:
                    if not self.spec_depth and self.depth == 0 and hasattr(s, "lineno"):
                        self.covered_lines.add(s.lineno)       # reached with a feasible state (dead-code / vacuity report)
                    nxt += self.ex(r.st, s)
                except Unsupported as e:
                    r.st.undecided = str(e)
                    self.undecided_paths.append((str(e), getattr(s, "lineno", 0)))
                    nxt.append(Res(r.st, None, "undecided"))
            cur = self.join(nxt)
        return cur

    # ------------------------------------------------------------------ state merging at join points
    def join(self, results):
        """merge the states of all normally-continuing results into one (ite over heap / locals,
        guarded effects); other outcomes are kept as they are"""
        if not self.merging or len(results) < 2:
            return results
        groups, order = {}, []
        for r in results:
            if r.st.undecided or r.kind in ("undecided", "break", "continue"):
                k = ("keep", id(r))
            elif r.kind == "raise":
                k = ("raise", r.exc, r.excval is None)
            elif r.kind == "return":
                k = ("return", base_type(r.val.ty) if r.val is not None else None)
            else:
                k = ("normal",)
            if k not in groups:
                groups[k] = []; order.append(k)
            groups[k].append(r)
        out = []
        for k in order:
            rs = groups[k]
            if len(rs) < 2 or k[0] == "keep":
                out += rs; continue
            if k[0] == "normal":
                m = self.merge_states([r.st for r in rs])
                out += [Res(m)] if m is not None else rs
            elif k[0] == "return":
                m = self.merge_states([r.st for r in rs], values=[r.val if r.val is not None else V(NONE, "none") for r in rs])
                out += [Res(m[0], m[1], "return")] if m is not None else rs
            else:
                if rs[0].excval is None:
                    m = self.merge_states([r.st for r in rs])
                    out += [Res(m, None, "raise", rs[0].exc)] if m is not None else rs
                else:
                    m = self.merge_states([r.st for r in rs], values=[r.excval for r in rs])
                    out += [Res(m[0], None, "raise", rs[0].exc, m[1])] if m is not None else rs
        return out

    def merge_states(self, sts, values=None):
        """-> merged State, or (State, merged V) when `values` (one V per state) is given"""
        # common prefix of the path conditions
        L = 0
        m = min(len(s.pc) for s in sts)
        while L < m and all(s.pc[L].get_id() == sts[0].pc[L].get_id() for s in sts[1:]):
            L += 1
        # one fresh boolean per incoming branch: b_i -> (facts and conditions gathered on branch i)
        conds = [z3.Bool(fresh_name("br")) for _ in sts]
        out = State()
        out.pc = list(sts[0].pc[:L]) + [z3.Or(*conds), z3.AtMost(*conds, 1)]
        for b, s_ in zip(conds, sts):
            for f in s_.pc[L:]:
                if f.get_id() in s_.defs:
                    out.pc.append(f); out.defs.add(f.get_id())
                else:
                    out.pc.append(z3.Implies(b, f))
        for s_ in sts:
            out.defs |= s_.defs

        def ite(terms):
            if all(t.eq(terms[0]) for t in terms[1:]):
                return terms[0]
            r = terms[-1]
            for c, t in zip(reversed(conds[:-1]), reversed(terms[:-1])):
                r = z3.If(c, t, r)
            return r
        for f in set().union(*[set(s.heap) for s in sts]):
            arrs = [s.heap.get(f) if f in s.heap else z3.Const("H0_" + f, field_sort(f)) for s in sts]
            out.heap[f] = ite(arrs)
        names = set(sts[0].env)
        for s in sts[1:]:
            names &= set(s.env)
        for nm in names:
            vals = [s.env[nm] for s in sts]
            if all(isinstance(v, V) for v in vals):
                tys = {v.ty for v in vals}
                if "none" in tys and len(tys) == 2 and None not in tys:
                    # None on one branch, X on the other: Optional[X]
                    other = next(t for t in tys if t != "none")
                    if base_type(other) in self.reg.classes or base_type(other) in ("list", "dict", "set", "tuple", "str", "int", "Path"):
                        oty = other if other.startswith("opt:") else "opt:" + other
                        srcs = [v.src for v in vals]
                        out.env[nm] = V(ite([v.t for v in vals]), oty, src=srcs[0] if all(x is srcs[0] for x in srcs) else None)
                        continue
                if len({base_type(t) for t in tys if t is not None}) > 1:
                    if all(v.t.eq(vals[0].t) for v in vals[1:]):
                        out.env[nm] = V(vals[0].t, None, vals[0].src)     # same value, narrowed differently on the branches
                        continue
                    return None         # different values of conflicting static types: keep the paths apart
                srcs = [v.src for v in vals]
                mty = vals[0].ty if len(tys) == 1 else None
                if mty is None and None not in tys and len({base_type(t) for t in tys}) == 1 and base_type(vals[0].ty) in self.reg.classes:
                    # X on one branch, Optional[X] on another: the merged value is an Optional[X]
                    plain = sorted(t[4:] if t.startswith("opt:") else t for t in tys)
                    if len(set(plain)) == 1:
                        mty = ("opt:" + plain[0]) if any(t.startswith("opt:") for t in tys) else plain[0]
                out.env[nm] = V(ite([v.t for v in vals]), mty,
                                src=srcs[0] if all(x is srcs[0] for x in srcs) else None)
            elif all(v is vals[0] for v in vals):
                out.env[nm] = vals[0]
        for nm in set().union(*[set(s.ghost) for s in sts]):
            if all(nm in s.ghost for s in sts):
                vals = [s.ghost[nm] for s in sts]
                out.ghost[nm] = V(ite([v.t for v in vals]), vals[0].ty)
        # effect trace: common prefix, then the remainders guarded by the branch conditions
        T = 0
        mt = min(len(s.trace) for s in sts)
        while T < mt and all(s.trace[T] is sts[0].trace[T] for s in sts[1:]):
            T += 1
        out.trace = list(sts[0].trace[:T])
        for c, s in zip(conds, sts):
            out.trace += [e.guarded(c) for e in s.trace[T:]]
        out.reads = set().union(*[s.reads for s in sts])
        seen = set()
        for s in sts:
            for w in s.writes:
                k = (w[0], w[1].get_id() if z3.is_expr(w[1]) else str(w[1]))
                if k not in seen:
                    seen.add(k); out.writes.append(w)
        out.front = ite([s.front for s in sts])
        out.nalloc = max(s.nalloc for s in sts)
        if values is not None:
            tys = {v.ty for v in values}
            bts = {base_type(t) for t in tys}
            if len(tys) == 1:
                ty = values[0].ty
            elif len(bts) == 1 and None not in bts:
                b_ = bts.pop()
                full = [t for t in tys if not t.startswith("opt:")]
                ty = ("opt:" + (full[0] if full else b_)) if any(t.startswith("opt:") for t in tys) else full[0]
            else:
                ty = None
            return out, V(ite([v.t for v in values]), ty)
        return out

    def ex(self, st, s):
        m = getattr(self, "ex_" + type(s).__name__, None)
        if m is None:
            raise Unsupported(f"statement {type(s).__name__} at line {s.lineno}")
        self.nstmts += 1
        return m(st, s)

    # ------------------------------------------------------------------ simple statements
    def is_dropped_call(self, call):
        d = self.dotted(call.func) if isinstance(call, ast.Call) else None
        if not d:
            return False
        root = d.split(".")[0]
        if d == "print":
            self.dropped.add("print")      # console output: arguments are not evaluated
            return True
        if root in ("logger", "logging", "hash_logger") or d in ("cprint", "print"):
            for a in ast.walk(call):
                if isinstance(a, ast.Call) and a is not call:
                    f = self.dotted(a.func)
                    pure_methods = (".join", ".format", ".items", ".description", ".resolve", ".hex", ".absolute", ".name", ".keys", ".values")
                    if f not in ("len", "str", "type", "repr", "colored", "format", "hash", "id") and not any((f or "").endswith(m_) for m_ in pure_methods):
                        return False
                if isinstance(a, (ast.Await, ast.NamedExpr, ast.Yield)):
                    return False
            self.dropped.add(d)
            return True
        return False

    def ex_Expr(self, st, s):
        if isinstance(s.value, ast.Constant):
            return [Res(st)]
        if self.is_dropped_call(s.value):
            return [Res(st)]
        return [Res(r.st) if r.ok else r for r in self.ev(st, s.value)]

    def ex_Pass(self, st, s):
        return [Res(st)]

    def ex_Global(self, st, s):
        return [Res(st)]

    def ex_Import(self, st, s):
        return [Res(st)]

    def ex_ImportFrom(self, st, s):
        return [Res(st)]

    def ex_FunctionDef(self, st, s):
        st.env[s.name] = s
        return [Res(st)]

    def ex_Return(self, st, s):
        if s.value is None:
            return [Res(st, V(NONE, "none"), "return")]
        return [Res(r.st, r.val, "return") if r.ok else r for r in self.ev(st, s.value)]

    def ex_Break(self, st, s):
        return [Res(st, None, "break")]

    def ex_Continue(self, st, s):
        return [Res(st, None, "continue")]

    def ex_Raise(self, st, s):
        e = s.exc
        if e is None:
            cur = st.env.get("$exc")
            if cur is None:
                raise Unsupported("bare raise outside handler")
            return [Res(st, None, "raise", cur[0], cur[1])]
        if isinstance(e, ast.Call):
            name = self.dotted(e.func)
            excval = None
            if name == "SystemExit" and e.args:
                excval = self.ev1(st, e.args[0])
            return [Res(st, None, "raise", name, excval)]
        if isinstance(e, ast.Name):
            if e.id in st.env and isinstance(st.env[e.id], tuple):
                cur = st.env[e.id]
                return [Res(st, None, "raise", cur[0], cur[1])]
            return [Res(st, None, "raise", e.id)]
        raise Unsupported(f"raise form at line {s.lineno}")

    def ex_Assert(self, st, s):
        out = []
        for r in self.ev(st, s.test):
            if not r.ok:
                out.append(r); continue
            t = self.truth(r.st, r.val)
            ok = r.st.copy(); ok.assume(t)
            bad = r.st.copy(); bad.assume(z3.Not(t))
            if self.feasible(ok): out.append(Res(ok))
            if self.feasible(bad): out.append(Res(bad, None, "raise", "AssertionError"))
        return out

    def ex_Delete(self, st, s):
        out = [Res(st)]
        for t in s.targets:
            nxt = []
            for r in out:
                if not r.ok:
                    nxt.append(r); continue
                if isinstance(t, ast.Subscript):
                    nxt += self.evseq(r.st, [t.value, t.slice], lambda s2, vs: self.del_item(s2, vs[0], vs[1], s.lineno))
                elif isinstance(t, ast.Name):
                    r.st.env.pop(t.id, None); nxt.append(r)
                else:
                    raise Unsupported("del target")
            out = nxt
        return out

    def del_item(self, st, c, k, lineno):
        if base_type(c.ty) != "dict":
            raise Unsupported(f"del on {c.ty} at line {lineno}")
        self.touch_key(st, k)
        has = self.dhas(st, c, k.t)
        ok = st.copy(); ok.assume(has)
        bad = st.copy(); bad.assume(z3.Not(has))
        out = []
        if self.feasible(ok):
            self.dict_remove(ok, c, k)
            out.append(Res(ok))
        if self.feasible(bad):
            out.append(Res(bad, None, "raise", "KeyError"))
        return out

    def dict_remove(self, st, c, k):
        keys = self.dkeys(st, c)
        nk = z3.Const(fresh_name("dk"), SeqV)
        i = z3.IndexOf(keys, z3.Unit(k.t), 0)
        st.assume(nk == z3.Concat(z3.SubSeq(keys, 0, i), z3.SubSeq(keys, i + 1, z3.Length(keys) - i - 1)))
        st.write("$dkeys", vr(c.t), nk)
        st.write("$dhas", vr(c.t), z3.Store(st.read("$dhas", vr(c.t)), k.t, False))

    # ------------------------------------------------------------------ assignment
    def bind_target(self, st, target, val):
        """bind a loop/with/comprehension target; val is V or tuple of V"""
        if isinstance(target, ast.Name):
            if isinstance(val, tuple):
                val = self.new_list(st, self.mkseq(list(val)), "tuple")
            lt = self.local_types.get(target.id)
            if lt and isinstance(val, V) and val.ty is None:
                val = self.typed(st, V(val.t, lt, val.src))      # declared static type of a local (sidecar)
            st.env[target.id] = val
        elif isinstance(target, (ast.Tuple, ast.List)):
            if isinstance(val, tuple):
                if len(val) != len(target.elts):
                    raise Unsupported("unpack arity")
                for t, v in zip(target.elts, val):
                    self.bind_target(st, t, v)
            else:
                seq = self.elems(st, val)
                stars = [k for k, t in enumerate(target.elts) if isinstance(t, ast.Starred)]
                if not stars:
                    st.assume(z3.Length(seq) == len(target.elts))   # arity failure not modelled
                    for k, t in enumerate(target.elts):
                        self.bind_target(st, t, V(seq[k], elem_type(val.ty)))
                else:
                    if len(stars) > 1: raise Unsupported("two starred targets")
                    sidx = stars[0]; nafter = len(target.elts) - sidx - 1
                    st.assume(z3.Length(seq) >= len(target.elts) - 1)
                    for k, t in enumerate(target.elts[:sidx]):
                        self.bind_target(st, t, V(seq[k], elem_type(val.ty)))
                    n_ = z3.Length(seq)
                    rest = self.subseq(st, seq, z3.IntVal(sidx), n_ - sidx - nafter)
                    self.bind_target(st, target.elts[sidx].value, self.new_list(st, rest, "list" + (f"[{elem_type(val.ty)}]" if elem_type(val.ty) else "")))
                    for j, t in enumerate(target.elts[sidx + 1:]):
                        self.bind_target(st, t, V(seq[n_ - nafter + j], elem_type(val.ty)))
        elif isinstance(target, (ast.Attribute, ast.Subscript)):
            if isinstance(val, tuple):
                val = self.new_list(st, self.mkseq(list(val)), "tuple")
            rs = self.assign(st, target, val, getattr(target, "lineno", 0))
            if len(rs) != 1 or not rs[0].ok or rs[0].st is not st:
                raise Unsupported("attribute/subscript binding target with side effects")
        else:
            raise Unsupported("binding target")

    def assign(self, st, target, val, lineno):
        """-> list[Res] (assignment may raise through a property setter contract)"""
        if isinstance(target, ast.Name):
            lt = self.local_types.get(target.id)
            if lt and isinstance(val, V) and val.ty is None:
                val = self.typed(st, V(val.t, lt, val.src))
            elif lt and isinstance(val, V) and val.ty == base_type(lt) and val.ty in ("list", "set", "dict", "tuple"):
                val = V(val.t, lt, val.src)       # a bare container literal takes the declared element type of the local
            st.env[target.id] = val
            return [Res(st)]
        if isinstance(target, ast.Attribute):
            out = []
            for r in self.ev(st, target.value):
                if not r.ok:
                    out.append(r); continue
                obj, s2 = r.val, r.st
                ty = base_type(obj.ty)
                k = self.reg.lookup(ty, target.attr + ".setter", self.reg.contracts)
                if k:
                    out += [Res(x.st) if x.ok else x for x in self.call_function(s2, k, [obj, val], {}, lineno, recv_ty=ty)]
                    continue
                ft = self.reg.field_type(ty, target.attr)
                if ft and not self.spec_depth:
                    tmp = State(); tmp.heap = s2.heap
                    self._no_elem_typing = True       # (the element classes of a container are assumed on reads only: DESIGN 11)
                    try:
                        self.assume_type(tmp, V(val.t, ft))
                    finally:
                        self._no_elem_typing = False
                    if tmp.pc:
                        self.oblige(f"type-safety:field {ty}.{target.attr}: {ft}@L{lineno}", "type-safety", z3.And(*tmp.pc), s2, lineno)
                if target.attr in self.track_writes and not self.spec_depth:
                    s2.trace.append(Effect("write:" + target.attr, [obj, val], lineno, s2.copy()))
                    self.on_effect(s2, s2.trace[-1])        # guard evaluated in the state before the write
                s2.write(target.attr, vr(obj.t), val.t)
                out.append(Res(s2))
            return out
        if isinstance(target, ast.Subscript):
            def k(s2, vs):
                c, key = vs
                ty = base_type(c.ty)
                if ty == "dict":
                    self.dict_set(s2, c, key, val)
                    f = self.entry_fact(s2, c, key, val)
                    if f is not None:
                        self.oblige(f"dict-inv {c.src[1]}[...] entry written at L{lineno}: {self.reg.dict_fact(base_type(c.src[0].ty), c.src[1])}", "inv-pres", f, s2, lineno)
                    return [Res(s2)]
                if ty == "list":
                    seq = self.elems(s2, c); i = vi(key.t)
                    idx = z3.If(i < 0, z3.Length(seq) + i, i)
                    s2.assume(z3.And(idx >= 0, idx < z3.Length(seq)))   # IndexError not modelled on stores
                    ns = z3.Concat(z3.SubSeq(seq, 0, idx), z3.Unit(val.t), z3.SubSeq(seq, idx + 1, z3.Length(seq) - idx - 1))
                    s2.write("$elems", vr(c.t), ns)
                    return [Res(s2)]
                raise Unsupported(f"store into {c.ty} at line {lineno}")
            return self.evseq(st, [target.value, target.slice], k)
        if isinstance(target, (ast.Tuple, ast.List)):
            self.bind_target(st, target, val)
            return [Res(st)]
        raise Unsupported(f"assignment target at line {lineno}")

    def dict_set(self, st, c, key, val):
        self.touch_key(st, key)
        keys = self.dkeys(st, c)
        has = self.dhas(st, c, key.t)
        st.write("$dkeys", vr(c.t), z3.If(has, keys, z3.Concat(keys, z3.Unit(key.t))))
        st.write("$dhas", vr(c.t), z3.Store(st.read("$dhas", vr(c.t)), key.t, True))
        st.write("$dmap", vr(c.t), z3.Store(self.dmap(st, c), key.t, val.t))

    def ex_Assign(self, st, s):
        out = []
        for r in self.ev(st, s.value):
            if not r.ok:
                out.append(r); continue
            cur = [Res(r.st)]
            for t in s.targets:
                nxt = []
                for c in cur:
                    nxt += self.assign(c.st, t, r.val, s.lineno) if c.ok else [c]
                cur = nxt
            out += cur
        return out

    def ex_AnnAssign(self, st, s):
        if s.value is None:
            return [Res(st)]
        out = []
        for r in self.ev(st, s.value):
            out += self.assign(r.st, s.target, r.val, s.lineno) if r.ok else [r]
        return out

    def ex_AugAssign(self, st, s):
        load = ast.parse(ast.unparse(s.target), mode="eval").body
        for x in ast.walk(load):
            x.lineno = s.lineno; x.col_offset = 0
        if isinstance(s.target, ast.Attribute) or isinstance(s.target, ast.Name):
            binop = ast.BinOp(left=load, op=s.op, right=s.value)
            binop.lineno = s.lineno
            out = []
            for r in self.ev(st, binop):
                out += self.assign(r.st, s.target, r.val, s.lineno) if r.ok else [r]
            return out
        raise Unsupported("augmented assignment target")

    # ------------------------------------------------------------------ control flow
    def feasible(self, st):
        self.nfeas += 1
        from .solve import has_quantifier
        sol = self.fsolver
        sol.push()
        try:
            sol.add(*[f for f in st.pc if not has_quantifier(f)])   # over-approximation of feasibility
            r = sol.check()
        finally:
            sol.pop()
        return r != z3.unsat

    def ex_If(self, st, s):
        out = []
        for r in self.ev(st, s.test):
            if not r.ok:
                out.append(r); continue
            t = self.truth(r.st, r.val)
            s1 = r.st.copy(); s1.assume(t)
            s2 = r.st.copy(); s2.assume(z3.Not(t))
            self.narrow(s1, s.test, True); self.narrow(s2, s.test, False)
            f1, f2 = self.feasible(s1), self.feasible(s2)
            if not self.spec_depth and self.depth == 0 and not isinstance(s.test, ast.Constant):      # (a literal test is constant on purpose)
                b = self.branch_cov.setdefault(s.lineno, [False, False])      # which sides of this test were ever feasible
                b[0] = b[0] or f1; b[1] = b[1] or f2
            if f1: out += self.block(s1, s.body)
            if f2: out += self.block(s2, s.orelse)
        return out

    NARROW = {"list": "list", "List": "list", "dict": "dict", "set": "set", "tuple": "tuple", "str": "str", "float": "float", "Path": "Path"}

    def narrow(self, st, test, positive):
        """flow-sensitive static typing: isinstance(x, T) known true in this branch"""
        if isinstance(test, ast.UnaryOp) and isinstance(test.op, ast.Not):
            return self.narrow(st, test.operand, not positive)
        if (positive and isinstance(test, ast.Call) and self.dotted(test.func) == "isinstance" and isinstance(test.args[0], ast.Name)
                and isinstance(test.args[1], (ast.Name, ast.Attribute, ast.Tuple))):
            nm = test.args[0].id
            if isinstance(test.args[1], ast.Tuple):
                names = {(self.dotted(e) or "?").split(".")[-1] for e in test.args[1].elts}
                cls = "list" if names and names <= {"list", "set", "tuple", "List"} else (names.pop() if len(names) == 1 else "?")
            else:
                cls = self.dotted(test.args[1]).split(".")[-1]
            ty = self.NARROW.get(cls) or (cls if cls in self.reg.classes else None)
            cur = st.env.get(nm)
            if ty and isinstance(cur, V) and (cur.ty is None or base_type(cur.ty) != ty):
                st.env[nm] = V(cur.t, ty, cur.src)

    def match_handler(self, exc, h):
        if h.type is None:
            return True
        names = [self.dotted(e) for e in h.type.elts] if isinstance(h.type, ast.Tuple) else [self.dotted(h.type)]
        return any(self.reg.is_exc_sub(exc, nm) for nm in names)

    def ex_Try(self, st, s):
        out = []
        for r in self.block(st, s.body):
            if r.kind == "raise":
                for h in s.handlers:
                    if self.match_handler(r.exc, h):
                        s2 = r.st
                        saved = s2.env.get("$exc")
                        s2.env["$exc"] = (r.exc, r.excval)
                        if h.name:
                            s2.env[h.name] = (r.exc, r.excval)
                        for x in self.block(s2, h.body):
                            if saved is None: x.st.env.pop("$exc", None)
                            else: x.st.env["$exc"] = saved
                            out.append(x)
                        break
                else:
                    out.append(r)
            elif r.ok and s.orelse:
                out += self.block(r.st, s.orelse)
            else:
                out.append(r)
        if s.finalbody:
            fin = []
            for r in out:
                if r.kind == "undecided":
                    fin.append(r); continue
                for f in self.block(r.st, s.finalbody):
                    fin.append(f if not f.ok else Res(f.st, r.val, r.kind, r.exc, r.excval))
            out = fin
        return out

    # ---- with
    def ex_With(self, st, s):
        return self.do_with(st, s, s.items, False)

    def ex_AsyncWith(self, st, s):
        return self.do_with(st, s, s.items, True)

    def do_with(self, st, s, items, is_async):
        if not items:
            return self.block(st, s.body)
        it, rest = items[0], items[1:]
        out = []
        for r in self.ev(st, it.context_expr):
            if not r.ok:
                out.append(r); continue
            cm = r.val
            ty = base_type(cm.ty)
            enter, exit_ = ("__aenter__", "__aexit__") if is_async else ("__enter__", "__exit__")
            if ty in self.mutex_types:
                # threading / inter-process mutex: mutual exclusion is assumed, no state change
                if it.optional_vars is not None:
                    raise Unsupported("mutex bound to a name")
                # ghost trace entries: the critical section of this mutex is delimited on the effect trace, so that an
                # effect guard can require "inside the section of <mutex>" (effect_with_arg('mutex.enter', 0, m) and not
                # effect_with_arg('mutex.exit', 0, m))
                s_in = r.st.copy()
                s_in.trace.append(Effect("mutex.enter", [cm], s.lineno, None))
                for b in self.do_with(s_in, s, rest, is_async):
                    if b.kind != "undecided":
                        b.st.trace.append(Effect("mutex.exit", [cm], s.lineno, None))
                    out.append(b)
                continue
            s1 = self.interfere(r.st, s.lineno) if is_async else r.st
            for e in self.call_method(s1, cm, enter, [], s.lineno):
                if not e.ok:
                    out.append(e); continue
                s2 = e.st
                if it.optional_vars is not None:
                    self.bind_target(s2, it.optional_vars, e.val)
                for b in self.do_with(s2, s, rest, is_async):
                    if b.kind == "undecided":
                        out.append(b); continue
                    k_exit = self.reg.lookup2(base_type(cm.ty), exit_, self.functions, self.reg.contracts)
                    no_yield = bool(k_exit and self.reg.contracts.get(k_exit, {}).get("no_yield"))
                    s3 = self.interfere(b.st, s.lineno) if (is_async and not no_yield) else b.st
                    for x in self.call_method(s3, cm, exit_, [], s.lineno, exc=(b.exc if b.kind == "raise" else None)):
                        if not x.ok:
                            out.append(x)
                        elif b.kind == "raise" and x.val is not None and self.swallows(x):
                            out.append(Res(x.st))
                        else:
                            out.append(Res(x.st, b.val, b.kind, b.exc, b.excval))
        return out

    def swallows(self, res):
        return False

    # ---- loops
    def iter_seq(self, st, v, node=None):
        ty = base_type(v.ty)
        if isinstance(v, Iter):
            return v
        if ty in ("list", "tuple", "set"):
            seq = self.elems(st, v)
            et = elem_type(v.ty)
            return Iter(z3.Length(seq), lambda k: V(seq[k], et), src=v)
        if ty == "dict":
            self.dict_link(st, v)
            seq = self.dkeys(st, v)
            kt = key_type(v.ty)
            return Iter(z3.Length(seq), lambda k: V(seq[k], kt), src=v)
        raise Unsupported(f"iteration over {v.ty} at line {getattr(node, 'lineno', '?')}")

    def instantiate_seq_facts(self, st, it, k):
        """manual instantiation, at index k, of the element-wise facts known about the iterated sequence"""
        src = it.src if isinstance(it, Iter) else it
        if src is None or base_type(src.ty) not in ("list", "tuple", "set"):
            return
        seq = self.elems(st, src)
        if z3.is_const(seq) and seq.decl().kind() == z3.Z3_OP_UNINTERPRETED:
            for fn in self.seq_facts.get(seq.decl().name(), []):
                st.assume(fn(k))

    def loop_key(self, s):
        tgt = ast.unparse(s.target) if hasattr(s, "target") else "while"
        return tgt

    def assigned_names(self, stmts):
        names = set()
        for s in stmts:
            for x in ast.walk(s):
                if isinstance(x, ast.Name) and isinstance(x.ctx, ast.Store):
                    names.add(x.id)
        return names

    def loop_frame(self, st, body_fn, ivar=None):
        """fields written by one symbolic iteration (dry run in a scratch copy).
        -> (dict field -> None (whole field) | list of excluded old-object terms, allocs)"""
        n0 = len(self.obligations); u0 = len(self.undecided_paths)
        sd = self.spec_depth
        self.spec_depth += 1          # no obligations from the dry run
        try:
            s = st.copy(); w0 = len(s.writes)
            outs = body_fn(s)
        finally:
            self.spec_depth = sd
        del self.obligations[n0:]
        del self.undecided_paths[u0:]
        fields = {}
        allocs = 0
        from .solve import has_quantifier
        self._loop_end_types = {}
        for r in outs:
            for nm_, v_ in r.st.env.items():
                if isinstance(v_, V):
                    self._loop_end_types.setdefault(nm_, set()).add(v_.ty)
        self._loop_effects = set()
        for r in outs:
            for e_ in [x for x in r.st.trace if not any(x.orig is y.orig for y in st.trace)]:
                self._loop_effects.add(e_.name)
                self._loop_effects |= set(e_.inner)
        for r in outs:
            allocs = max(allocs, r.st.nalloc - st.nalloc)
            for f, o in r.st.writes[w0:]:
                if f in fields and fields[f] is None:
                    continue
                if o is None or not z3.is_expr(o) or f.startswith("$fs_"):
                    fields[f] = None
                    continue
                # written object allocated inside the loop body?  (then every old object keeps its value)
                sol = z3.Solver(); sol.set("timeout", 1000)
                sol.add(*[c for c in r.st.pc if not has_quantifier(c)])
                sol.add(o < st.front)
                if sol.check() == z3.unsat:
                    fields.setdefault(f, [])
                    continue
                names = self.free_names(o)
                if ivar is not None and (ivar in names or any(nm not in self._pre_names for nm in names if nm.startswith("ret!") or nm.startswith("hv!") or nm.startswith("v!"))):
                    fields[f] = None
                elif any(nm.startswith(("ret!", "hv!", "comp!", "glob!", "its!")) and nm not in self._pre_names for nm in names):
                    fields[f] = None
                else:
                    lst = fields.setdefault(f, [])
                    if not any(o.eq(x) for x in lst):
                        lst.append(o)
        return fields, allocs

    def havoc_frame(self, st, fields, names, pre_names, st0=None):
        st0 = st0 or st
        for f, excl in fields.items():
            old = st.field(f)
            st.havoc_field(f)
            self.alloc_axiom(st, f)
            if excl is not None:
                new = st.heap[f]
                o = z3.Int(fresh_name("o"))
                st.assume(qforall([o], z3.Implies(z3.And(o < st0.front, *[o != x for x in excl]), z3.Select(new, o) == z3.Select(old, o)),
                                    patterns=[z3.Select(new, o)]))
        for nm in names:
            if nm in pre_names and isinstance(pre_names[nm], V):
                # static type of a local at the loop head: the join of its type before the loop and of the types it has at the
                # end of an iteration (dry run) - e.g. None before the loop and X after an assignment gives Optional[X]
                tys = {pre_names[nm].ty} | set(getattr(self, "_loop_end_types", {}).get(nm, ()))
                jt = pre_names[nm].ty
                if len(tys) > 1:
                    plain = {t[4:] if (t or "").startswith("opt:") else t for t in tys if t not in (None, "none")}
                    if None in tys or len(plain) != 1:
                        jt = None
                    else:
                        p_ = next(iter(plain))
                        jt = ("opt:" + p_) if ("none" in tys or any((t or "").startswith("opt:") for t in tys)) else p_
                st.env[nm] = self.typed(st, V(fresh_val(nm), jt))
            else:
                st.env.pop(nm, None)

    def alloc_axiom(self, st, f, arr=None, bound=None):
        """every reference stored in heap array `f` denotes an allocated object (address < frontier)"""
        arr = arr if arr is not None else st.heap[f]
        bound = bound if bound is not None else st.front
        o, j = z3.Int(fresh_name("o")), z3.Int(fresh_name("j"))
        kk = z3.Const(fresh_name("k"), Val)
        if f == "$dmap":
            x = z3.Select(z3.Select(arr, o), kk)
            fact = qforall([o, kk], z3.Implies(Val.is_RefV(x), vr(x) < bound), patterns=[x])
        elif f in ("$elems", "$dkeys"):
            x = z3.Select(arr, o)[j]
            fact = qforall([o, j], z3.Implies(z3.And(0 <= j, j < z3.Length(z3.Select(arr, o)), Val.is_RefV(x)), vr(x) < bound), patterns=[x])
        elif not f.startswith("$"):
            x = z3.Select(arr, o)
            fact = qforall([o], z3.Implies(Val.is_RefV(x), vr(x) < bound), patterns=[x])
        else:
            return None
        if st is not None:
            st.assume(fact)
        return fact

    def state_names(self, st):
        names = set()
        for v in st.env.values():
            if isinstance(v, V):
                names |= self.free_names(v.t)
        for h in st.heap.values():
            names |= self.free_names(h)
        return names

    def havoc_heap_field(self, st, f):
        st.havoc_field(f)

    def ex_For(self, st, s):
        if s.orelse:
            raise Unsupported("for/else")
        out = []
        for r in self.ev_iter(st, s.iter):
            if not r.ok:
                out.append(r); continue
            out += self.run_loop(r.st, s, r.val)
        return out

    def ev_iter(self, st, node):
        """evaluate the iterable of a for loop -> Res whose val is an Iter"""
        if isinstance(node, ast.Call):
            f = self.dotted(node.func)
            if f == "range":
                def k(s, vs):
                    if len(vs) == 1: lo, hi = z3.IntVal(0), vi(vs[0].t)
                    elif len(vs) == 2: lo, hi = vi(vs[0].t), vi(vs[1].t)
                    else: raise Unsupported("range step")
                    n = z3.If(hi > lo, hi - lo, 0)
                    return [Res(s, Iter(n, lambda j: V(IntV(lo + j), "int")))]
                return self.evseq(st, node.args, k)
            if f == "zip" and len(node.args) == 2:
                def k(s, vs):
                    a, b = self.iter_seq(s, vs[0], node), self.iter_seq(s, vs[1], node)
                    n = z3.If(a.length < b.length, a.length, b.length)
                    return [Res(s, Iter(n, lambda j: (a.item(j), b.item(j))))]
                return self.evseq(st, node.args, k)
            if f == "enumerate" and len(node.args) == 1:
                def k(s, vs):
                    a = self.iter_seq(s, vs[0], node)
                    return [Res(s, Iter(a.length, lambda j: (V(IntV(j), "int"), a.item(j)), src=a.src))]
                return self.evseq(st, node.args, k)
            if isinstance(node.func, ast.Attribute) and node.func.attr in ("items", "values", "keys") and not node.args:
                out = []
                for r in self.ev(st, node.func.value):
                    if not r.ok:
                        out.append(r); continue
                    d = r.val
                    if base_type(d.ty) != "dict":
                        out += [Res(x.st, self.iter_seq(x.st, x.val, node)) if x.ok else x for x in self.ev(r.st, node)]
                        return out
                    self.dict_link(r.st, d)
                    keys, mp = self.dkeys(r.st, d), self.dmap(r.st, d)
                    kt, vt = key_type(d.ty), elem_type(d.ty)
                    if node.func.attr == "items":
                        it = Iter(z3.Length(keys), lambda j: (V(keys[j], kt), V(z3.Select(mp, keys[j]), vt)), src=d)
                    elif node.func.attr == "values":
                        it = Iter(z3.Length(keys), lambda j: V(z3.Select(mp, keys[j]), vt), src=d)
                    else:
                        it = Iter(z3.Length(keys), lambda j: V(keys[j], kt), src=d)
                    out.append(Res(r.st, it))
                return out
        return [Res(r.st, self.iter_seq(r.st, r.val, node)) if r.ok else r for r in self.ev(st, node)]

    def run_loop(self, st0, s, it):
        key = self.loop_key(s)
        okey = f"{key}#{self.loop_ordinals.get(id(s), 1)}"
        lc = self.loop_contract(okey) or self.loop_contract(key)
        self.loop_keys_seen.update((key, okey))
        if self.loop_contract(okey):
            key = okey
        invs = lc.get("invariants", [])
        n = it.length
        st0.assume(n >= 0)
        # the iterated collection holds distinct pre-existing objects when it is a set
        if it.src is not None and base_type(it.src.ty) == "set":
            qa, qb = fresh_int("qa"), fresh_int("qb")
            seq = self.elems(st0, it.src)
            st0.assume(qforall([qa, qb], z3.Implies(z3.And(0 <= qa, qa < qb, qb < n), seq[qa] != seq[qb]), patterns=[z3.MultiPattern(seq[qa], seq[qb])]))
        i = fresh_int("i_" + key.replace(" ", ""))
        pre_env = dict(st0.env)
        names = self.assigned_names(s.body) | self.assigned_names([s])

        def body(state):
            self.instantiate_seq_facts(state, it, i)
            self.bind_target(state, s.target, self.typed(state, it.item(i)))
            return self.block(state, s.body)

        probe = st0.copy(); probe.assume(z3.And(0 <= i, i < n))
        self._pre_names = set()
        for c in st0.pc[-60:]:
            pass
        self._pre_names = self.state_names(st0)
        fields, allocs = self.loop_frame(probe, body, ivar=i.decl().name())
        loop_effects = set(self._loop_effects)
        if loop_effects:
            # iterations before the current one may already have produced these effects
            pass

        def inv_terms(state, idx):
            binds = {k: v for k, v in state.env.items() if isinstance(v, V)}
            binds["_i"] = V(IntV(idx), "int")
            if it.src is not None:
                binds["_seq"] = it.src
            return [(e, self.spec(state, self.entry_state or st0, e, binds)) for e in invs]      # old(): function entry

        for e, f in inv_terms(st0, z3.IntVal(0)):
            self.oblige(f"inv-init[{key}]: {e}", "inv-init", f, st0, s.lineno)

        out = []
        # arbitrary iteration
        sh = st0.copy()
        if allocs:
            nf = fresh_int('front'); sh.assume(nf >= st0.front); sh.front = nf
        self.havoc_frame(sh, fields, names, pre_env, st0)
        sh.assume(z3.And(0 <= i, i < n))
        if it.src is not None and base_type(it.src.ty) == "dict" and Val.is_RefV(it.src.t) is not None:
            # instance of the representation fact of dict_link at the current index: the enumerated key is a member
            sh.assume(z3.Select(st0.read("$dhas", vr(it.src.t)), self.dkeys(st0, it.src)[i]))
        try:
            cur = it.item(i)
            if isinstance(cur, V) and z3.is_app(cur.t) and cur.t.decl().kind() == z3.Z3_OP_SEQ_NTH and cur.t.arg(0).decl().name() in self.seq_lemmas:
                sh.assume(self.seq_lemmas[cur.t.arg(0).decl().name()](i - 1, i))
        except z3.Z3Exception:
            pass
        sh.trace.append(Effect("loop:" + key, [], s.lineno, None, inner=sorted(loop_effects)))
        self.loop_unchanged(sh, st0, it)
        for e, f in inv_terms(sh, i):
            sh.assume(f)
        breaks = []
        ntrace = len(sh.trace)
        iter_start = sh.copy()
        for b in body(sh):
            if b.kind in ("normal", "continue"):
                for e, f in inv_terms(b.st, i + 1):
                    self.oblige(f"inv-pres[{key}]: {e}", "inv-pres", f, b.st, s.lineno)
                for e in lc.get("body_post", []):
                    from .registry import clause_text, clause_active
                    if clause_active(e, self.prop):
                        view = b.st.copy(); view.trace = b.st.trace[ntrace:]     # effects of this iteration only
                        binds = {k: v for k, v in b.st.env.items() if isinstance(v, V)}
                        binds["_i"] = V(IntV(i), "int")
                        if it.src is not None:
                            binds["_seq"] = it.src
                        self._iter_start = iter_start
                        self.oblige(f"loop-body[{key}]: {clause_text(e)}", "inv-pres", self.spec(view, self.entry_state or st0, clause_text(e), binds), b.st, s.lineno)
            elif b.kind == "break" and lc.get("no_break"):
                self.oblige(f"loop-body[{key}]: no iteration is skipped by break", "inv-pres", z3.BoolVal(False), b.st, s.lineno)
                if it.src is not None and not lc.get("mutates_iterated"):
                    self.oblige(f"loop-frame[{key}]: iterated collection unchanged", "loop-frame",
                                self.same_collection(b.st, st0, it.src), b.st, s.lineno)
            elif b.kind == "break":
                breaks.append(Res(b.st))
            else:
                out.append(b)
        # after the loop
        sa = st0.copy()
        if allocs:
            nf = fresh_int('front'); sa.assume(nf >= st0.front); sa.front = nf
        self.havoc_frame(sa, fields, names, pre_env, st0)
        self.loop_unchanged(sa, st0, it)
        for e, f in inv_terms(sa, n):
            sa.assume(f)
        for e in lc.get("exit_assume", []):
            sa.assume(self.spec(sa, st0, e, {}))
        sa.trace.append(Effect("loop:" + key, [], s.lineno, None, inner=sorted(loop_effects)))
        out.append(Res(sa))
        out += breaks
        return out

    def loop_unchanged(self, st, st0, it):
        if it.src is not None:
            st.assume(self.same_collection(st, st0, it.src))

    def same_collection(self, st, st0, src):
        r = vr(src.t)
        if base_type(src.ty) == "dict":
            return z3.And(z3.Select(st.field("$dkeys"), r) == z3.Select(st0.field("$dkeys"), r),
                          z3.Select(st.field("$dhas"), r) == z3.Select(st0.field("$dhas"), r))
        return z3.Select(st.field("$elems"), r) == z3.Select(st0.field("$elems"), r)

    def ex_While(self, st0, s):
        if s.orelse:
            raise Unsupported("while/else")
        key = "while@" + ast.unparse(s.test)[:40]
        lc = self.loop_contract(key) or self.loop_contract("while")
        self.loop_keys_seen.update((key, "while"))
        invs = lc.get("invariants", [])
        pre_env = dict(st0.env)
        names = self.assigned_names(s.body)

        def inv_terms(state):
            return [(e, self.spec(state, st0, e, {k: v for k, v in state.env.items() if isinstance(v, V)})) for e in invs]

        for e, f in inv_terms(st0):
            self.oblige(f"inv-init[while]: {e}", "inv-init", f, st0, s.lineno)

        def iteration(state, collect):
            outs = []
            for r in self.ev(state, s.test):
                if not r.ok:
                    outs.append(r); continue
                t = self.truth(r.st, r.val)
                s1 = r.st.copy(); s1.assume(t)
                s2 = r.st.copy(); s2.assume(z3.Not(t))
                if self.feasible(s1):
                    outs += self.block(s1, s.body)
                if collect is not None and self.feasible(s2):
                    collect.append(Res(s2))
            return outs

        self._pre_names = self.state_names(st0)
        fields, allocs = self.loop_frame(st0.copy(), lambda st_: iteration(st_, None))
        out = []
        sh = st0.copy()
        if allocs:
            nf = fresh_int('front'); sh.assume(nf >= st0.front); sh.front = nf
        self.havoc_frame(sh, fields, names, pre_env, st0)
        sh.trace.append(Effect("loop:while", [], s.lineno, None, inner=sorted(self._loop_effects)))
        for e, f in inv_terms(sh):
            sh.assume(f)
        exits = []
        for b in iteration(sh, exits):
            if b.kind in ("normal", "continue"):
                for e, f in inv_terms(b.st):
                    self.oblige(f"inv-pres[while]: {e}", "inv-pres", f, b.st, s.lineno)
            elif b.kind == "break":
                exits.append(Res(b.st))
            else:
                out.append(b)
        return out + exits
