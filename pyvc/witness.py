"""From a solver model to a concrete pre-state description (JSON), used for replay on the real code."""
import z3
from .state import *  # noqa
from .vals import *   # noqa


class WitnessMixin:
    def witness(self, key, ob, model):
        c = self.reg.contracts[key]
        fn, cls = self.functions[key]
        st = self.entry_state
        reads = set(ob.st.reads) | set(st.reads)
        for d in model.decls():
            if d.name().startswith("H0_"):
                reads.add(d.name()[3:])
        ctx = dict(model=model, st=st, objs={}, reads=reads)
        params = {}
        for p, v in st.env.items():
            if isinstance(v, V):
                params[p] = self.concretize(ctx, v, 0)
        ghosts = {g: self.concretize(ctx, v, 0) for g, v in st.ghost.items()}
        info = ob.info or {}
        return dict(function=key, params=params, ghost=ghosts, objects=ctx["objs"], obligation=ob.name,
                    clause=info.get("clause"), tag=info.get("tag", ob.kind))

    def mval(self, ctx, t):
        return ctx["model"].eval(t, model_completion=True)

    def concretize(self, ctx, v, depth):
        m = self.mval(ctx, v.t)
        return self.conc_val(ctx, m, v.ty, depth)

    def conc_val(self, ctx, m, ty, depth):
        name = m.decl().name() if z3.is_app(m) else ""
        bt = base_type(ty)
        if bt in self.reg.classes and bt not in self.reg.enums and name not in ("RefV", "NoneV"):
            return {"$default": bt}      # value left unconstrained by the model: any object of the declared class
        if bt == "int" and name != "IntV": return 0
        if bt == "str" and name != "StrV": return ""
        if bt == "bool" and name != "BoolV": return False
        if name == "NoneV": return None
        if name == "BoolV": return z3.is_true(m.arg(0))
        if name == "IntV": return m.arg(0).as_long()
        if name == "StrV": return m.arg(0).as_string()
        if name == "FloatV":
            a = m.arg(0)
            try:
                return {"$float": float(a.as_fraction())}
            except Exception:
                return {"$float": str(a)}
        if name == "BytesV": return {"$bytes": str(m.arg(0))}
        if name == "PathV": return {"$path": str(m.arg(0))}
        if name == "RefV":
            r = m.arg(0).as_long()
            en = self.enum_of_addr(r)
            if en: return {"$enum": en}
            return self.conc_obj(ctx, r, ty, depth)
        return {"$term": str(m)}

    def enum_of_addr(self, r):
        for cls, members in self.reg.enums.items():
            for mname, _ in members:
                names = [m for m, _ in members]
                if -(self.reg.classtag(cls) * 100 + names.index(mname) + 1) == r:
                    return f"{cls}.{mname}"
        return None

    def conc_obj(self, ctx, r, ty, depth):
        key = str(r)
        bt = base_type(ty)
        if key in ctx["objs"] or depth > 4:
            return {"$ref": r}
        st = ctx["st"]
        o = {"class": bt, "type": ty}
        ctx["objs"][key] = o
        if bt in ("list", "set", "tuple"):
            seq = self.mval(ctx, z3.Select(st.heap.get("$elems", z3.Const("H0_$elems", field_sort("$elems"))), z3.IntVal(r)))
            o["elems"] = self.conc_seq(ctx, seq, elem_type(ty), depth + 1)
        elif bt == "dict":
            keys = self.mval(ctx, z3.Select(st.heap.get("$dkeys", z3.Const("H0_$dkeys", field_sort("$dkeys"))), z3.IntVal(r)))
            mp = z3.Select(st.heap.get("$dmap", z3.Const("H0_$dmap", field_sort("$dmap"))), z3.IntVal(r))
            ks = self.seq_items(ctx, keys)
            try:
                has = self.mval(ctx, z3.Select(st.heap.get("$dhas", z3.Const("H0_$dhas", field_sort("$dhas"))), z3.IntVal(r)))
                extra = self.array_true_keys(ctx, has)
                ks = ks + [k for k in extra if not any(k.eq(x) for x in ks)]
                ks = [k for k in ks if z3.is_true(self.mval(ctx, z3.Select(has, k)))]
            except Exception:
                pass
            o["items"] = [[self.conc_val(ctx, k, key_type(ty), depth + 1),
                           self.conc_val(ctx, self.mval(ctx, z3.Select(mp, k)), elem_type(ty), depth + 1)] for k in ks]
        elif bt in self.reg.classes:
            fields = {}
            for c in self.reg.mro(bt):
                for f, ft in self.reg.classes.get(c, {}).get("fields", {}).items():
                    if f in ctx["reads"]:
                        arr = st.heap.get(f, z3.Const("H0_" + f, field_sort(f)))
                        fields[f] = self.conc_val(ctx, self.mval(ctx, z3.Select(arr, z3.IntVal(r))), ft, depth + 1)
            o["fields"] = fields
        return {"$ref": r}

    def array_true_keys(self, ctx, arr):
        out = []
        while z3.is_app(arr) and arr.decl().name() == "store":
            if z3.is_true(arr.arg(2)):
                out.append(arr.arg(1))
            arr = arr.arg(0)
        return out

    def seq_items(self, ctx, seq):
        n = self.mval(ctx, z3.Length(seq)).as_long()
        return [self.mval(ctx, seq[z3.IntVal(i)]) for i in range(min(n, 8))]

    def conc_seq(self, ctx, seq, ety, depth):
        return [self.conc_val(ctx, x, ety, depth) for x in self.seq_items(ctx, seq)]
