#!/bin/sh
# Build the offline overlay venv: python 3.12 (same interpreter as /venv, so the repository and its
# dependencies import) + z3-solver, cvc5, crosshair-tool, deal, icontract from the local wheelhouse.
set -e
cd "$(dirname "$0")"
V=.venv
if [ ! -x "$V/bin/python" ] || ! "$V/bin/python" -c "import z3, cvc5, crosshair, deal, icontract, experimaestro" 2>/dev/null; then
  rm -rf "$V"
  /venv/bin/python -m venv "$V"
  PIP_NO_INDEX=1 "$V/bin/pip" install -q --no-index --find-links /opt/veriftools/wheels \
      z3-solver cvc5 crosshair-tool deal icontract jsonschema >/dev/null
  SP=$("$V/bin/python" -c "import sysconfig; print(sysconfig.get_paths()['purelib'])")
  echo "import site; site.addsitedir('/venv/lib/python3.12/site-packages')" > "$SP/_repo.pth"
fi
"$V/bin/python" -c "import z3, cvc5, crosshair, deal, icontract, experimaestro; print('verif venv ok', z3.get_version_string())"
