"""C01 — a configuration's identifier is a pure function of its content."""
FUNCS = ["ConfigPath.detect_loop", "HashComputer.compute"]
LEVEL = "proof"
TRUSTED = []
