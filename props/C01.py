"""C01 — a configuration's identifier is a pure function of its content."""
FUNCS = ["ConfigPath.detect_loop", "HashComputer.compute", "HashComputer.update", "HashComputer._hashupdate"]
LEVEL = "proof"
TRUSTED = []
from bounded.identifiers import run_c01
BOUNDED = [("spec vs real identifiers, all request orders, hash seeds", run_c01)]
