"""C16 — the experiment's job index lists exactly the jobs of the last completed plan."""
FUNCS = ["experiment.__enter__", "experiment.__exit__", "Scheduler.aio_submit"]
LEVEL = "proof"
LEVEL_TEXT = 'Deductive: experiment.__enter__ takes the lock before touching the index and moves every previous link into the backup; aio_submit links jobs/<relpath> to the job directory; __exit__ removes the backup only in NORMAL mode, without exception and before waiting. Bounded: sequences of real runs ending normally or with an exception; a second process is kept out; jobs clean / orphans on real workspaces read both indexes.'
TRUSTED = ['kill inside rename; OS lock semantics', 'z3 5.1 / cvc5 1.0.3 / z3 4.8.12 and the VC generator pyvc (validated by seeded changes, pre-fix replays and the CPython replay of counterexamples; not verified)', 'Python semantics of DESIGN 2.3 (mathematical ints and reals, left-to-right evaluation, no monkey-patching, assert not compiled out)', 'heap typing: declared field/parameter classes are assumed on reads and checked on writes in the functions under contract', "contracts of externals and of callees outside the list are assumed; every ('ASSUME', ...) clause is listed in DESIGN section 11"]
LEVEL_NOTE = 'kill inside rename; OS lock semantics'

from bounded.wire import run_c16
from bounded.cleaning import run_cleaning
BOUNDED = [("job index over sequences of real runs", run_c16), ("orphans reads both indexes (jobs clean / orphans --clean on workspaces)", run_cleaning)]
