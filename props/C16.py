"""C16 — the experiment's job index lists exactly the jobs of the last completed plan."""
FUNCS = ["experiment.__enter__", "experiment.__exit__", "Scheduler.aio_submit"]
LEVEL = "proof"
TRUSTED = []
