"""C16 — the experiment's job index lists exactly the jobs of the last completed plan."""
FUNCS = ["experiment.__enter__", "experiment.__exit__", "Scheduler.aio_submit"]
LEVEL = "proof"
TRUSTED = []

from bounded.wire import run_c16
BOUNDED = [("job index over sequences of real runs", run_c16)]
