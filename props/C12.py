"""C12 — saving and loading a configuration graph loses nothing."""
FUNCS = []
LEVEL = "other"
from bounded.wire import run_c12
from bounded.findings import run_c12_type_key
BOUNDED = [("round trip of enumerated graphs through json / state_dict / save-load", run_c12), ("dict value with a \"type\" key", run_c12_type_key)]
