"""C13 — runtime objects mirror the configuration graph and are initialised once."""
FUNCS = []
LEVEL = "other"
from bounded.wire import run_c13
BOUNDED = [("instances of enumerated graphs (direct and params-file routes)", run_c13)]
