"""C13 — runtime objects mirror the configuration graph and are initialised once."""
FUNCS = []
LEVEL = "other"
LEVEL_TEXT = 'No contract is discharged for this property. Bounded stand-in only: instances of enumerated graphs through instance() and through the params-file route: one object per configuration, wiring, __post_init__ once after the fields, pre-tasks once, init tasks once after the pre-tasks.'
TRUSTED = ['bounded only: nothing is claimed as proved', 'z3 5.1 / cvc5 1.0.3 / z3 4.8.12 and the VC generator pyvc (validated by seeded changes, pre-fix replays and the CPython replay of counterexamples; not verified)', 'Python semantics of DESIGN 2.3 (mathematical ints and reals, left-to-right evaluation, no monkey-patching, assert not compiled out)', 'heap typing: declared field/parameter classes are assumed on reads and checked on writes in the functions under contract', "contracts of externals and of callees outside the list are assumed; every ('ASSUME', ...) clause is listed in DESIGN section 11"]
LEVEL_NOTE = 'bounded only: nothing is claimed as proved'
from bounded.wire import run_c13
BOUNDED = [("instances of enumerated graphs (direct and params-file routes)", run_c13)]
