"""C06 — truthful, stable final state; the experiment exits."""
FUNCS = ["JobLock.acquire", "JobDependency.lock", "Job.dependencychanged", "Dependency.check", "Scheduler.aio_registerJob", "JobDependency.status",
         "Scheduler.aio_submit", "experiment.wait.awaitcompletion", "Scheduler.aio_start"]
LEVEL = "proof"
LEVEL_TEXT = 'Deductive: every write site of Job.state replaces a final state only by a final state (exception: adoption DONE->RUNNING); dependencychanged never changes a finished state; aio_start result is DONE iff exit code 0 (or no code and the success marker / a failed file containing 0); aio_submit returns the final state, decrements the counter exactly once and before notify_all; aio_registerJob counts a re-submitted job; awaitcompletion returns only when exitMode or counter and queue are 0. Known finding (bounded native schedule): lost READY after an aborted start.'
TRUSTED = ["liveness ('never hanging') is outside the technique", 'Job.state == UNSCHEDULED when aio_submit is entered (call site in Scheduler.submit)', 'z3 5.1 / cvc5 1.0.3 / z3 4.8.12 and the VC generator pyvc (validated by seeded changes, pre-fix replays and the CPython replay of counterexamples; not verified)', 'Python semantics of DESIGN 2.3 (mathematical ints and reals, left-to-right evaluation, no monkey-patching, assert not compiled out)', 'heap typing: declared field/parameter classes are assumed on reads and checked on writes in the functions under contract', "contracts of externals and of callees outside the list are assumed; every ('ASSUME', ...) clause is listed in DESIGN section 11"]
LEVEL_NOTE = "liveness ('never hanging') is outside the technique; Job.state == UNSCHEDULED when aio_submit is entered (call site in Scheduler.submit)"

from bounded.findings import run_c06_lost_ready
BOUNDED = [("lost READY after an aborted start (native schedule)", run_c06_lost_ready)]
