"""C06 — truthful, stable final state; the experiment exits."""
FUNCS = ["Job.dependencychanged", "Dependency.check", "Scheduler.aio_registerJob", "JobDependency.status"]
LEVEL = "proof"
TRUSTED = []
