"""C06 — truthful, stable final state; the experiment exits."""
FUNCS = ["Job.dependencychanged", "Dependency.check", "Scheduler.aio_registerJob", "JobDependency.status",
         "Scheduler.aio_submit", "Scheduler.aio_start"]
LEVEL = "proof"
TRUSTED = []
