"""C06 — truthful, stable final state; the experiment exits."""
FUNCS = ["Job.dependencychanged", "Dependency.check", "Scheduler.aio_registerJob", "JobDependency.status",
         "Scheduler.aio_submit", "experiment.wait.awaitcompletion", "Scheduler.aio_start"]
LEVEL = "proof"
TRUSTED = []

from bounded.findings import run_c06_lost_ready
BOUNDED = [("lost READY after an aborted start (native schedule)", run_c06_lost_ready)]
