"""C20 — deprecating a class keeps identifiers and makes old results reachable."""
FUNCS = ["ObjectType.deprecate"]
LEVEL = "proof"
TRUSTED = []
