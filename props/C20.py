"""C20 — deprecating a class keeps identifiers and makes old results reachable."""
FUNCS = ["ObjectType.deprecate", "fix_deprecated"]
LEVEL = "proof"
TRUSTED = []

from bounded.wire import run_c20
BOUNDED = [("deprecated identifiers and repair command on workspaces", run_c20)]
