"""C20 — deprecating a class keeps identifiers and makes old results reachable."""
FUNCS = ["ObjectType.deprecate", "fix_deprecated"]
LEVEL = "proof"
LEVEL_TEXT = "Deductive: ObjectType.deprecate swaps the type identifier for the parent's and keeps the former one; fix_deprecated never calls rmtree, unlinks only symlinks, renames only with fix and cleanup, links only with fix and without cleanup, changes nothing without fix/cleanup. Bounded: identifiers of graphs with deprecated classes; repair of workspaces in states fresh/linked/dangling/other. Known finding: repaired task directory keeps the old marker names."
TRUSTED = ['load_job / recomputed identifier = C01/C12', 'z3 5.1 / cvc5 1.0.3 / z3 4.8.12 and the VC generator pyvc (validated by seeded changes, pre-fix replays and the CPython replay of counterexamples; not verified)', 'Python semantics of DESIGN 2.3 (mathematical ints and reals, left-to-right evaluation, no monkey-patching, assert not compiled out)', 'heap typing: declared field/parameter classes are assumed on reads and checked on writes in the functions under contract', "contracts of externals and of callees outside the list are assumed; every ('ASSUME', ...) clause is listed in DESIGN section 11"]
LEVEL_NOTE = 'load_job / recomputed identifier = C01/C12'

from bounded.wire import run_c20
BOUNDED = [("deprecated identifiers and repair command on workspaces", run_c20)]
