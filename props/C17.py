"""C17 — generated paths are private to the job, distinct and reproducible."""
FUNCS = ["PathGenerator.__call__", "ConfigWalkContext.currentpath", "ConfigInformation.seal.Sealer.postprocess"]
LEVEL = "proof"
TRUSTED = []

from bounded.wire import run_c17
BOUNDED = [("generated paths on enumerated graphs", run_c17)]
