"""C17 — generated paths are private to the job, distinct and reproducible."""
FUNCS = ["ConfigWalk.__call__", "PathGenerator.__call__", "ConfigWalkContext.currentpath", "ConfigInformation.seal.Sealer.postprocess"]
LEVEL = "proof"
LEVEL_TEXT = "Deductive: PathGenerator.__call__ = context path / position / name; currentpath is a function of the context position only; Sealer.postprocess generates every generated argument from the context at this node and stores it bypassing the seal. Bounded: enumerated graphs with generated paths everywhere. Known finding: configuration shared by two tasks keeps the first task's path."
TRUSTED = ['push/pop of the walk position is a @contextmanager generator (not executed symbolically)', 'distinctness relies on injectivity of path joins for plain names', 'z3 5.1 / cvc5 1.0.3 / z3 4.8.12 and the VC generator pyvc (validated by seeded changes, pre-fix replays and the CPython replay of counterexamples; not verified)', 'Python semantics of DESIGN 2.3 (mathematical ints and reals, left-to-right evaluation, no monkey-patching, assert not compiled out)', 'heap typing: declared field/parameter classes are assumed on reads and checked on writes in the functions under contract', "contracts of externals and of callees outside the list are assumed; every ('ASSUME', ...) clause is listed in DESIGN section 11"]
LEVEL_NOTE = 'push/pop of the walk position is a @contextmanager generator (not executed symbolically); distinctness relies on injectivity of path joins for plain names'

from bounded.wire import run_c17
BOUNDED = [("generated paths on enumerated graphs", run_c17)]
