"""C17 — generated paths are private to the job, distinct and reproducible."""
FUNCS = ["PathGenerator.__call__", "ConfigWalkContext.currentpath", "ConfigInformation.seal.Sealer.postprocess"]
LEVEL = "proof"
TRUSTED = []
