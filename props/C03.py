"""C03 — configurations with different signatures never share an identifier."""
FUNCS = ["HashComputer.update", "HashComputer._hashupdate"]
LEVEL = "proof"
TRUSTED = []
from bounded.identifiers import run_c03
BOUNDED = [("near pairs and pairwise comparison by canonical signature", run_c03)]
