"""C03 — configurations with different signatures never share an identifier."""
FUNCS = ["HashComputer.compute", "ConfigInformation.identifiers", "HashComputer.update", "HashComputer._hashupdate"]
LEVEL = "proof"
LEVEL_TEXT = 'Deductive: conformance of the emitted stream to the documented encoding (tags, fixed widths, list length prefix, name before value with NAME_ID) in HashComputer.update/_hashupdate. Injectivity of the encoding itself is not mechanised. Bounded: near pairs and pairwise comparison of enumerated typed signatures (equal identifier iff equal canonical signature).'
TRUSTED = ['sha256 collision resistance', 'injectivity of the spec encoder on the typed domain is argued in DESIGN, checked only by the bounded suite', 'z3 5.1 / cvc5 1.0.3 / z3 4.8.12 and the VC generator pyvc (validated by seeded changes, pre-fix replays and the CPython replay of counterexamples; not verified)', 'Python semantics of DESIGN 2.3 (mathematical ints and reals, left-to-right evaluation, no monkey-patching, assert not compiled out)', 'heap typing: declared field/parameter classes are assumed on reads and checked on writes in the functions under contract', "contracts of externals and of callees outside the list are assumed; every ('ASSUME', ...) clause is listed in DESIGN section 11"]
LEVEL_NOTE = 'sha256 collision resistance; injectivity of the spec encoder on the typed domain is argued in DESIGN, checked only by the bounded suite'
from bounded.identifiers import run_c03
BOUNDED = [("near pairs and pairwise comparison by canonical signature", run_c03)]
