"""C05 — a task configuration is executed at most once per successful result."""
FUNCS = ["Scheduler.submit", "Scheduler.aio_registerJob", "Scheduler.aio_submit", "Scheduler.aio_start", "TaskRunner.run"]
LEVEL = "proof"
TRUSTED = []
