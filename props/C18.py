"""C18 — a launcher request only matches hosts that satisfy it; combining requests never alters the operands."""
FUNCS = ["HostSimpleRequirement.match", "HostSimpleRequirement._add", "HostSimpleRequirement.__and__",
         "HostSimpleRequirement.__mul__", "RequirementUnion.match"]
LEVEL = "proof"
LEVEL_TEXT = 'Deductive: match != None implies enough GPUs, each with enough memory, CPU memory and cores, duration allowed; result carries host priority; __and__/__mul__ write nothing reachable before the call and return the field-wise max / merged GPU lists; RequirementUnion.match returns the first matching alternative. For __mul__ the accumulation (k copies after k-1 iterations) is proved as the loop invariant; the final length count * L after the sort is left to the bounded suite (the nonlinear query was unstable).'
TRUSTED = ['text specification = programmatic one (arpeggio parser) is outside the verifier', "float('-inf') modelled as -1e30", 'z3 5.1 / cvc5 1.0.3 / z3 4.8.12 and the VC generator pyvc (validated by seeded changes, pre-fix replays and the CPython replay of counterexamples; not verified)', 'Python semantics of DESIGN 2.3 (mathematical ints and reals, left-to-right evaluation, no monkey-patching, assert not compiled out)', 'heap typing: declared field/parameter classes are assumed on reads and checked on writes in the functions under contract', "contracts of externals and of callees outside the list are assumed; every ('ASSUME', ...) clause is listed in DESIGN section 11"]
LEVEL_NOTE = "text specification = programmatic one (arpeggio parser) is outside the verifier; float('-inf') modelled as -1e30"
from bounded.specs import run_c18
BOUNDED = [("requests, hosts, & / * / unions on real objects", run_c18)]
