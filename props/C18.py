"""C18 — a launcher request only matches hosts that satisfy it; combining requests never alters the operands."""
FUNCS = ["HostSimpleRequirement.match", "HostSimpleRequirement._add", "HostSimpleRequirement.__and__",
         "HostSimpleRequirement.__mul__", "RequirementUnion.match"]
LEVEL = "proof"
TRUSTED = []
