"""C19 — job filters mean what they say; cleaning commands delete only what is selected."""
FUNCS = ["process", "JobInformation.state", "VarExpr.get", "ConstantString.get", "BaseInExpr.__init__", "RegexExpr.__init__",
         "InExpr.filter", "NotInExpr.filter", "RegexExpr.filter", "LogicExpr.filter", "LogicExpr.summary"]
LEVEL = "proof"
LEVEL_TEXT = 'Deductive: VarExpr.get, In/NotIn/Regex/Logic filters and JobInformation.state equal their documented meaning; constructor of RegexExpr compiles the operand string; LogicExpr.summary builds the left-associated chain. Bounded: createFilter(text) against an evaluator written from the documentation; jobs clean and orphans --clean on materialised workspaces.'
TRUSTED = ['pyparsing grammar; process()/orphans() are covered by the bounded suite only', 'z3 5.1 / cvc5 1.0.3 / z3 4.8.12 and the VC generator pyvc (validated by seeded changes, pre-fix replays and the CPython replay of counterexamples; not verified)', 'Python semantics of DESIGN 2.3 (mathematical ints and reals, left-to-right evaluation, no monkey-patching, assert not compiled out)', 'heap typing: declared field/parameter classes are assumed on reads and checked on writes in the functions under contract', "contracts of externals and of callees outside the list are assumed; every ('ASSUME', ...) clause is listed in DESIGN section 11"]
LEVEL_NOTE = 'pyparsing grammar; process()/orphans() are covered by the bounded suite only'

from bounded.filters import run_filters
from bounded.cleaning import run_cleaning
BOUNDED = [("createFilter vs documented meaning", run_filters), ("jobs clean / orphans --clean on workspaces", run_cleaning)]
