"""C19 — job filters mean what they say; cleaning commands delete only what is selected."""
FUNCS = ["JobInformation.state", "VarExpr.get", "ConstantString.get", "BaseInExpr.__init__", "RegexExpr.__init__",
         "InExpr.filter", "NotInExpr.filter", "RegexExpr.filter", "LogicExpr.filter", "LogicExpr.summary"]
LEVEL = "proof"
TRUSTED = []

from bounded.filters import run_filters
from bounded.cleaning import run_cleaning
BOUNDED = [("createFilter vs documented meaning", run_filters), ("jobs clean / orphans --clean on workspaces", run_cleaning)]
