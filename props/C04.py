"""C04 — no job is launched before everything it depends on has succeeded."""
FUNCS = ["Scheduler.aio_start", "Scheduler.aio_submit", "Job.dependencychanged", "Dependency.check", "JobDependency.status", "updatedependencies", "ConfigInformation.updatedependencies"]
LEVEL = "proof"
TRUSTED = []
