"""C04 — no job is launched before everything it depends on has succeeded."""
FUNCS = ["Scheduler.aio_start", "Scheduler.aio_submit", "Job.dependencychanged", "Dependency.check", "JobDependency.status", "updatedependencies", "ConfigInformation.updatedependencies"]
LEVEL = "proof"
TRUSTED = []

from bounded.wire import run_c04_c07
BOUNDED = [("start order on real small DAGs", run_c04_c07)]
