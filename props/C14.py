"""C14 — submitted configurations are frozen together with their identity."""
FUNCS = ["TypeConfig.add_pretasks_from", "ConfigInformation.identifiers", "ConfigInformation.set", "ConfigInformation.set_meta", "TypeConfig.add_pretasks",
         "ConfigInformation.seal.Sealer.preprocess", "ConfigInformation.seal.Sealer.postprocess", "HashComputer.compute"]
LEVEL = "proof"
LEVEL_TEXT = 'Deductive: ConfigInformation.set on a sealed configuration (without bypass) raises and leaves the values unchanged; set_meta and add_pretasks raise when sealed; Sealer.postprocess marks the node sealed and Sealer.preprocess stops at sealed nodes; HashComputer.compute never writes the cache. Bounded: every reachable node of enumerated sealed/submitted graphs rejects assignments (different, equal, equal-but-distinct objects), meta changes and pre-tasks; identifiers unchanged.'
TRUSTED = ['the walk reaches every node (ML1), covered by the bounded suite', 'in-place mutation of list/dict values is outside the property', 'z3 5.1 / cvc5 1.0.3 / z3 4.8.12 and the VC generator pyvc (validated by seeded changes, pre-fix replays and the CPython replay of counterexamples; not verified)', 'Python semantics of DESIGN 2.3 (mathematical ints and reals, left-to-right evaluation, no monkey-patching, assert not compiled out)', 'heap typing: declared field/parameter classes are assumed on reads and checked on writes in the functions under contract', "contracts of externals and of callees outside the list are assumed; every ('ASSUME', ...) clause is listed in DESIGN section 11"]
LEVEL_NOTE = 'the walk reaches every node (ML1), covered by the bounded suite; in-place mutation of list/dict values is outside the property'

from bounded.wire import run_c14
BOUNDED = [("freeze after seal/submit on enumerated graphs", run_c14)]
