"""C14 — submitted configurations are frozen together with their identity."""
FUNCS = ["ConfigInformation.set", "ConfigInformation.set_meta", "TypeConfig.add_pretasks",
         "ConfigInformation.seal.Sealer.preprocess", "ConfigInformation.seal.Sealer.postprocess", "HashComputer.compute"]
LEVEL = "proof"
TRUSTED = []

from bounded.wire import run_c14
BOUNDED = [("freeze after seal/submit on enumerated graphs", run_c14)]
