"""C15 — parameters only ever hold values of their declared type; submit fails fast."""
FUNCS = ["IntType.validate", "StrType.validate", "FloatType.validate", "BoolType.validate", "PathType.validate",
         "AnyType.validate", "ArrayType.validate", "DictType.validate", "ObjectType.validate", "EnumType.validate", "ConfigInformation.set",
         "ConfigInformation.validate", "ConfigInformation._validate_value"]
LEVEL = "proof"
LEVEL_TEXT = 'Deductive: each Type.validate returns a value of the declared type or raises (Int/Str/Float/Bool/Path/Any/Enum/Object, List and Dict by induction through hastype); documented coercions only; ConfigInformation.set stores validate(v) and refuses None for required arguments; validate() reaches every contained configuration (lists, sets, dicts) and raises for a missing required non-generated argument.'
TRUSTED = ["UnionType and the legacy {'$type': 'path'} form are outside the constructor list", 'validate-before-registration ordering in submit() is not mechanised', 'z3 5.1 / cvc5 1.0.3 / z3 4.8.12 and the VC generator pyvc (validated by seeded changes, pre-fix replays and the CPython replay of counterexamples; not verified)', 'Python semantics of DESIGN 2.3 (mathematical ints and reals, left-to-right evaluation, no monkey-patching, assert not compiled out)', 'heap typing: declared field/parameter classes are assumed on reads and checked on writes in the functions under contract', "contracts of externals and of callees outside the list are assumed; every ('ASSUME', ...) clause is listed in DESIGN section 11"]
LEVEL_NOTE = "UnionType and the legacy {'$type': 'path'} form are outside the constructor list; validate-before-registration ordering in submit() is not mechanised"
from bounded.findings import run_c15_stale_validated
BOUNDED = [("validated flag survives a rejected submission", run_c15_stale_validated)]
