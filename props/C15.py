"""C15 — parameters only ever hold values of their declared type; submit fails fast."""
FUNCS = ["IntType.validate", "StrType.validate", "FloatType.validate", "BoolType.validate", "PathType.validate",
         "AnyType.validate", "ArrayType.validate", "DictType.validate", "ObjectType.validate", "EnumType.validate", "ConfigInformation.set",
         "ConfigInformation.validate", "ConfigInformation._validate_value"]
LEVEL = "proof"
TRUSTED = []
