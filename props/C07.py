"""C07 — failures are contained."""
FUNCS = ["Scheduler.aio_start", "JobLock.acquire", "JobDependency.lock", "Job.dependencychanged", "Dependency.check", "JobDependency.status", "Scheduler.aio_submit", "experiment.wait.awaitcompletion"]
LEVEL = "proof"
LEVEL_TEXT = 'Deductive: JobDependency.status maps ERROR to FAIL; dependencychanged(FAIL) on a non-final job gives ERROR/DEPENDENCY and wakes the job; FAIL never counts as satisfied; aio_submit records a non-DONE job in failedJobs, re-checks every dependent (one call_soon(check) per dependent), never starts a job that is not READY, writes DONE only on evidence of success (a missing exit code of a re-attached process is a failure); awaitcompletion raises FailedExperiment iff failedJobs is not empty. Bounded: failure containment on real small DAGs.'
TRUSTED = ["'independent jobs still run to completion' is liveness", 'z3 5.1 / cvc5 1.0.3 / z3 4.8.12 and the VC generator pyvc (validated by seeded changes, pre-fix replays and the CPython replay of counterexamples; not verified)', 'Python semantics of DESIGN 2.3 (mathematical ints and reals, left-to-right evaluation, no monkey-patching, assert not compiled out)', 'heap typing: declared field/parameter classes are assumed on reads and checked on writes in the functions under contract', "contracts of externals and of callees outside the list are assumed; every ('ASSUME', ...) clause is listed in DESIGN section 11"]
LEVEL_NOTE = "'independent jobs still run to completion' is liveness"

from bounded.wire import run_c04_c07
BOUNDED = [("failure containment on real small DAGs", run_c04_c07)]
