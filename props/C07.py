"""C07 — failures are contained."""
FUNCS = ["Job.dependencychanged", "Dependency.check", "JobDependency.status", "Scheduler.aio_submit", "experiment.wait.awaitcompletion"]
LEVEL = "proof"
TRUSTED = []

from bounded.wire import run_c04_c07
BOUNDED = [("failure containment on real small DAGs", run_c04_c07)]
