"""C07 — failures are contained."""
FUNCS = ["Job.dependencychanged", "Dependency.check", "JobDependency.status", "Scheduler.aio_submit"]
LEVEL = "proof"
TRUSTED = []
