"""C09 — tokens are always given back."""
FUNCS = ["Token.aio_notify", "CounterToken.on_deleted", "Scheduler.aio_start", "ProcessCounterToken.release", "CounterToken.release", "TokenFile.delete", "CounterTokenLock._release",
         "Lock.release", "Lock.__exit__", "Locks._release", "TokenFile.watch.run"]
LEVEL = "proof"
LEVEL_TEXT = 'Deductive: release removes exactly the holding and restores the sum; Lock.release/__exit__ call _release once; Locks._release releases every appended lock; aio_start appends every acquired lock to the group (invariant: group size = number of dependencies locked so far) and executes Locks.__exit__ once after the last acquisition on every outcome; a token file that disappears gives its units back to this scheduler and is forgotten (on_deleted); aio_notify schedules a re-check of every waiting dependency; the watcher of a foreign holding deletes the token file on every path (no pid file, stale pid file, live process waited for).'
TRUSTED = ["'a waiting job is eventually launched' and holdings of a killed scheduler are liveness / OS matters", 'z3 5.1 / cvc5 1.0.3 / z3 4.8.12 and the VC generator pyvc (validated by seeded changes, pre-fix replays and the CPython replay of counterexamples; not verified)', 'Python semantics of DESIGN 2.3 (mathematical ints and reals, left-to-right evaluation, no monkey-patching, assert not compiled out)', 'heap typing: declared field/parameter classes are assumed on reads and checked on writes in the functions under contract', "contracts of externals and of callees outside the list are assumed; every ('ASSUME', ...) clause is listed in DESIGN section 11"]
LEVEL_NOTE = "'a waiting job is eventually launched' and holdings of a killed scheduler are liveness / OS matters"

from bounded.tokens import run_counter_token, run_process_token
BOUNDED = [("counter-token grid on real files", run_counter_token), ("process-token grid", run_process_token)]
