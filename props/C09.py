"""C09 — tokens are always given back."""
FUNCS = ["ProcessCounterToken.release", "CounterToken.release", "TokenFile.delete", "CounterTokenLock._release",
         "Lock.release", "Lock.__exit__", "Locks._release", "TokenFile.watch.run"]
LEVEL = "proof"
TRUSTED = []

from bounded.tokens import run_counter_token, run_process_token
BOUNDED = [("counter-token grid on real files", run_counter_token), ("process-token grid", run_process_token)]
