"""C09 — tokens are always given back."""
FUNCS = ["ProcessCounterToken.release", "CounterToken.release", "TokenFile.delete", "CounterTokenLock._release",
         "Lock.release", "Lock.__exit__", "Locks._release"]
LEVEL = "proof"
TRUSTED = []
