"""C08 — jobs running under a token never hold more than its capacity."""
FUNCS = ["ProcessCounterToken.acquire", "CounterToken._update", "CounterToken.acquire", "TokenFile.create",
         "CounterTokenDependency.status", "CounterTokenLock._acquire", "Lock.acquire", "Lock.__enter__"]
LEVEL = "proof"
TRUSTED = [
    "threading.Lock / fasteners.InterProcessLock give mutual exclusion of acquire/release/_update (with-blocks on Mutex are atomic sections)",
    "pathlib contracts of DESIGN 4.2 (glob enumerates exactly the existing matching entries; open('wt') truncates; write appends)",
    "finite-sum theory of disk_sum: (A1) sum over the glob enumeration = disk_sum, (A2) changing one entry changes the sum of its directory by the difference of that entry",
    "(E1) entries named *.token in a token directory are regular files; token files are written once per name while cached",
    "TokenFile.__init__ (trusted contract): count = tokcount(text); parser abstraction tokcount(str(c) + '\\n' + uri + '\\n') = c (bounded round-trip check)",
    "CounterToken._update: cache = directory listing (assumed clause, consequence of the glob contract)",
    "heap typing: declared field types are assumed on reads and checked on writes in the functions under contract",
]

from bounded.tokens import run_counter_token, run_process_token
BOUNDED = [("counter-token grid on real files", run_counter_token), ("process-token grid", run_process_token)]
