"""C02 — the identifier ignores everything documented as outside the signature."""
FUNCS = ["HashComputer.update"]
LEVEL = "proof"
TRUSTED = []
from bounded.identifiers import run_c02
BOUNDED = [("signature-neutral edits at every node and depth", run_c02)]
