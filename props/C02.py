"""C02 — the identifier ignores everything documented as outside the signature."""
FUNCS = ["clone", "HashComputer.update"]
LEVEL = "proof"
LEVEL_TEXT = 'Deductive: per iteration of the argument loop of HashComputer.update, SKIP (written from the documentation: Meta/Option/Path unless forced with meta=False, generated, equal to default / optional unset unless constant, meta-flagged sub-configuration) implies no byte is emitted, and not SKIP implies name, NAME_ID, value are emitted in that order. Bounded: every signature-neutral edit at every node and depth, class extensions with defaulted/Meta/generated parameters.'
TRUSTED = ['getattr(value, name) and Python == on untyped values are ghost functions (getattr_dyn, py_equal)', 'tags / dependencies / launcher / workspace are not read by update (read frame not mechanised: covered by the bounded suite)', 'z3 5.1 / cvc5 1.0.3 / z3 4.8.12 and the VC generator pyvc (validated by seeded changes, pre-fix replays and the CPython replay of counterexamples; not verified)', 'Python semantics of DESIGN 2.3 (mathematical ints and reals, left-to-right evaluation, no monkey-patching, assert not compiled out)', 'heap typing: declared field/parameter classes are assumed on reads and checked on writes in the functions under contract', "contracts of externals and of callees outside the list are assumed; every ('ASSUME', ...) clause is listed in DESIGN section 11"]
LEVEL_NOTE = 'getattr(value, name) and Python == on untyped values are ghost functions (getattr_dyn, py_equal); tags / dependencies / launcher / workspace are not read by update (read frame not mechanised: covered by the bounded suite)'
from bounded.identifiers import run_c02
from bounded.findings import run_c02_meta_in_default
from bounded.extra import run_c02_tagged_values
from bounded.extra import run_c01_defaults_not_shared
BOUNDED = [("signature-neutral edits at every node and depth", run_c02), ("default value that is a configuration (Meta edit)", run_c02_meta_in_default), ("tagged values", run_c02_tagged_values), ("defaults are private copies; default with a generated field", run_c01_defaults_not_shared)]
