"""C10 — job directory markers stay truthful whenever the job process dies."""
FUNCS = ["TaskRunner.run", "TaskRunner.cleanup", "TaskRunner.handle_error"]
LEVEL = "proof"
TRUSTED = []
