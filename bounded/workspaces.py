"""Bounded stand-in checks on materialised workspaces / real small experiments.

  run_c16      the experiment's job index (xp/<name>/jobs) lists exactly the jobs of the last completed plan; experiment lock
  run_c20      deprecating a class keeps identifiers; `fix_deprecated` makes old results reachable and never loses data
  run_c04_c07  scheduler end-to-end on small DAGs: start order, failure propagation, FailedExperiment

Every case runs the REAL code in its own subprocess (`python -m bounded.workspaces <kind>`, spec on stdin) under a timeout:
a hang becomes a reported failure.  The Config/Task classes live in bounded/zoo_ws.py.

Violations found on the current tree are kept as failures; a family can be switched off with KNOWN[name] = False.
"""
import concurrent.futures
import hashlib
import itertools
import json
import os
import random
import shutil
import signal
import subprocess
import sys
import tempfile
import threading
import time
from collections import Counter
from pathlib import Path

VERIF = str(Path(__file__).resolve().parents[1])
MARK = "@@WS-RESULT@@ "

# Failure families that are violations of the stated properties ON THE CURRENT TREE (True: still checked and reported)
KNOWN = {
    # `raise` right after `.submit()`: Scheduler.submit only *schedules* aio_submit; experiment.__exit__ stops the loop
    # before the coroutine created the link (and the job is never started)
    "C16 aborted run: a submitted job has no link in jobs/": True,
    # fasteners/fcntl locks are per process: a second experiment object of the same process takes the "lock"
    "C16 a second experiment of the same process entered while the first one holds the experiment": True,
    # the repaired directory keeps the file names of the former task (<old>.done): the replacement looks for <new>.done
    "C20 repaired job is not seen as done by the replacement task": True,
    # cleanup mode unlinks every symlinked job directory first, also one that points to other content
    "C20 cleanup mode replaced a pre-existing link to other content at the new path": True,
}


def _on(name):
    return KNOWN.get(name, True)


# ============================================================================================================ driver side


def _pythonpath():
    import experimaestro

    src = str(Path(experimaestro.__file__).resolve().parents[1])
    return f"{src}:{VERIF}"


def _spawn(kind, spec, timeout):
    """Runs one case in a subprocess; returns the worker's result dict (or a dict with key `problem`)"""
    env = dict(os.environ)
    env["PYTHONPATH"] = _pythonpath()
    env["PYTHONWARNINGS"] = "ignore"
    tmp = tempfile.mkdtemp(prefix=f"verif-ws-{kind}-")
    try:
        return _spawn_in(kind, dict(spec, tmp=tmp), timeout, env)
    finally:
        shutil.rmtree(tmp, ignore_errors=True)


def _spawn_in(kind, spec, timeout, env):
    with tempfile.TemporaryFile("w+") as err:
        p = subprocess.Popen(
            [sys.executable, "-m", "bounded.workspaces", kind],
            stdin=subprocess.PIPE,
            stdout=subprocess.PIPE,
            stderr=err,
            env=env,
            cwd=VERIF,
            text=True,
            start_new_session=True,
        )
        try:
            out, _ = p.communicate(json.dumps(spec), timeout=timeout)
        except subprocess.TimeoutExpired:
            try:
                os.killpg(p.pid, signal.SIGKILL)
            except OSError:
                pass
            try:
                p.communicate(timeout=5)
            except Exception:  # noqa
                pass
            err.seek(0)
            return {"problem": "timeout", "stderr": err.read()[-400:]}
        for line in reversed(out.splitlines()):
            if line.startswith(MARK):
                return json.loads(line[len(MARK):])
        err.seek(0)
        return {"problem": f"worker exited with code {p.returncode} and no result", "stderr": err.read()[-600:]}


def _run_cases(kind, specs, timeout, label, workers=None):
    """Runs all the specs (parallel subprocesses). Returns (failures, signatures)"""
    workers = workers or max(2, min(8, (os.cpu_count() or 4) // 2))
    failures, sigs, extra = [], set(), []
    with concurrent.futures.ThreadPoolExecutor(max_workers=workers) as pool:
        for spec, res in zip(specs, pool.map(lambda s: _spawn(s.get("kind", kind), s, s.get("timeout", timeout)), specs)):
            if "problem" in res:
                failures.append(
                    dict(name=f"{label} case did not complete ({res['problem'].split(' ')[0]})", case=spec["case"], problem=res["problem"], stderr=res.get("stderr", ""))
                )
                continue
            for f in res.get("failures", []):
                if _on(f["name"]):
                    failures.append(f)
            for s in res.get("sigs", []):
                sigs.add(json.dumps(s, sort_keys=True))
            extra.append(res.get("info"))
    return failures, sigs, extra


def _dedup(failures, limit=6):
    """At most `limit` failures, preferring one per family"""
    seen, first, rest = set(), [], []
    for f in failures:
        (rest if f["name"] in seen else first).append(f)
        seen.add(f["name"])
    return (first + rest)[:limit]


# ------------------------------------------------------------------------------------------------------------------- C16

C16_TASKS = ["a1", "a2", "b1"]
C16_FIXED = [
    [(["a1", "a2", "b1"], "ok"), (["a1"], "ok")],
    [(["a1", "a2"], "ok"), (["b1"], "raise_after_wait"), (["a2"], "ok")],
    [(["a1"], "ok"), (["a2"], "raise_after_wait"), (["b1"], "raise_after_wait")],
    [(["a1", "b1"], "ok"), (["a2"], "raise_now"), (["a1"], "ok")],
    [(["a1", "f"], "ok"), (["a1"], "ok")],
    [(["a1"], "raise_after_wait"), (["a2"], "ok")],
    [(["a1", "a2"], "ok"), ([], "ok"), (["a1"], "ok")],
    [(["a1", "a2"], "ok"), ([], "raise_now"), (["b1"], "raise_after_wait")],
]


def _c16_specs(tier, seed):
    rng = random.Random(seed)
    seqs = [list(s) for s in C16_FIXED]
    n_random = 6 if tier == "quick" else 56
    ends = ["ok", "ok", "raise_after_wait", "raise_now"]
    while len(seqs) < len(C16_FIXED) + n_random:
        runs = []
        for _ in range(rng.choice([2, 3, 3])):
            sub = [t for t in C16_TASKS if rng.random() < 0.55]
            if rng.random() < 0.12:
                sub.append("f")
            runs.append((sub, rng.choice(ends)))
        if runs not in seqs:
            seqs.append(runs)
    specs = []
    for i, runs in enumerate(seqs):
        # the lock probe blocks for its whole timeout when the lock is respected: only one run of some sequences
        probe_at = rng.randrange(len(runs)) if (i % (2 if tier == "quick" else 3) == 0) else -1
        specs.append(
            dict(
                case="seq " + " | ".join(f"{'+'.join(s) or '-'}:{e}" for s, e in runs) + (f" probe@{probe_at}" if probe_at >= 0 else ""),
                runs=[dict(submit=s, end=e, probe=(j == probe_at)) for j, (s, e) in enumerate(runs)],
            )
        )
    specs.append(dict(case="same-process second experiment after a completed run of a1+b1", sameproc=True, runs=[dict(submit=["a1", "b1"], end="ok", probe=False)]))
    return specs


def run_c16(tier, seed):
    specs = _c16_specs(tier, seed)
    failures, sigs, extra = _run_cases("c16", specs, timeout=60 if tier == "quick" else 90, label="C16")
    probes = Counter(o for e in extra if e for o in e.get("probes", []))
    return dict(
        tool="cpython: real `with experiment(...)` runs (2-3 per sequence) of tiny tasks + lock probes in subprocesses",
        bound=f"{len(specs)} sequences of 2-3 runs over subsets of 3 tasks (+1 failing task), endings ok / raise right after submit / raise after the jobs ended;"
        f" lock probe outcomes {dict(probes)}",
        cases=sum(len(s["runs"]) for s in specs),
        distinct=len(sigs),
        failures=_dedup(failures),
    )


# ------------------------------------------------------------------------------------------------------------------- C20

C20_VARIANTS = ["task_diff", "task_same", "inner", "inner_list"]
C20_STATES = ["fresh", "linked", "dangling", "other_real", "other_plain", "other_link"]
C20_MODES = [(False, False), (True, False), (True, True)]
# graphs holding a configuration forced into the signature with setmeta(cfg, False) at a Meta[...] argument (the stored
# "meta": false has to survive the reload done by the repair command): the forced configuration is itself of the deprecated
# class / is a bystander next to a deprecated parameter / sits at the Meta position of a nested configuration
# (a forced element of a Meta *list* is not a case: only a configuration that is itself the value of the ignored argument can be forced in)
C20_META_VARIANTS = ["meta_forced", "meta_forced_bystander", "meta_forced_nested"]


def _c20_specs(tier, seed):
    rng = random.Random(seed)
    specs = []
    combos = list(itertools.product(C20_VARIANTS, C20_STATES, C20_MODES))
    if tier == "quick":
        keep = set()
        # every state x mode once (variant rotating), every variant x {fresh} x the two fixing modes
        for i, (state, mode) in enumerate(itertools.product(C20_STATES, C20_MODES)):
            keep.add((C20_VARIANTS[(i + seed) % len(C20_VARIANTS)], state, mode))
        for v in C20_VARIANTS:
            keep.add((v, "fresh", (True, False)))
            keep.add((v, "fresh", (True, True)))
        combos = [c for c in combos if c in keep]
    for i, (variant, state, (fix, cleanup)) in enumerate(combos):
        resubmits = ["dry", "real"] if tier != "quick" and fix and not state.startswith("other") else [rng.choice(["dry", "real"])]
        for resubmit in resubmits:
            bystanders = (tier != "quick" and resubmit == "dry") or (i % 5 == 0)
            second = rng.random() < 0.5
            specs.append(
                dict(
                    case=f"{variant}/{state}/fix={fix},cleanup={cleanup}/resubmit={resubmit}" + ("/lw-bystanders" if bystanders else "") + ("/2nd-old-job" if second else ""),
                    variant=variant, state=state, fix=fix, cleanup=cleanup, resubmit=resubmit, bystanders=bystanders, second=second,
                )
            )
    # forced-in meta configurations (added after the others: the draws above are unchanged); both fixing modes on a fresh
    # workspace, real and dry resubmission (quick: one of each per variant, alternating)
    for k, variant in enumerate(C20_META_VARIANTS):
        states = ["fresh"] if tier == "quick" else ["fresh", "linked", "dangling"]
        for j, (state, (fix, cleanup)) in enumerate(itertools.product(states, [(True, False), (True, True)])):
            resubmits = [("real", "dry")[(k + j) % 2]] if tier == "quick" else ["real", "dry"]
            for resubmit in resubmits:
                specs.append(dict(case=f"{variant}/{state}/fix={fix},cleanup={cleanup}/resubmit={resubmit}/2nd-old-job", variant=variant, state=state,
                                  fix=fix, cleanup=cleanup, resubmit=resubmit, bystanders=False, second=True))
    # the order in which glob() enumerates a directory is unspecified: the "previously linked, now cleanup" cases are
    # run with the enumeration forced ascending and descending (link met before / after the directory it points to)
    for variant in C20_VARIANTS:
        for order in ("asc", "desc"):
            specs.append(dict(case=f"{variant}/linked/fix=True,cleanup=True/resubmit=dry/glob-order={order}", variant=variant, state="linked", fix=True, cleanup=True,
                              resubmit="dry", bystanders=False, second=True, order=order, link_all=True))
    return specs


def run_c20(tier, seed):
    # (a) identifiers: chunks of random graphs (each chunk also runs the systematic positions), in parallel with (b)
    chunks, per_chunk = (1, 150) if tier == "quick" else (6, 330)
    ident = [dict(kind="c20a", case=f"identifiers seed={seed * 1000 + i} n={per_chunk}", seed=seed * 1000 + i, n=per_chunk, timeout=35 if tier == "quick" else 150) for i in range(chunks)]
    repair = _c20_specs(tier, seed)
    consumers = [dict(kind="c20c", case=f"consumer of the output of a deprecated task/{pos}/cleanup={cl}", position=pos, cleanup=cl)
                 for pos in ("direct", "list") for cl in (False, True)]
    failures, sigs, extra = _run_cases("c20b", ident + repair + consumers, timeout=60, label="C20")
    graphs = sum(e["cases"] for e in extra if e and "cases" in e)
    return dict(
        tool="cpython: real identifiers of graphs with @deprecate classes; real fix_deprecated on workspaces populated by real runs, then resubmission",
        bound=f"{graphs} graphs (deprecated instance as root/param/nested/list/dict, task) + {len(repair)} repair cases: 4 variants x 6 states x 3 modes x resubmit dry/real"
              f" + {len(C20_META_VARIANTS)} variants with a configuration forced in by setmeta(cfg, False) at a Meta position (deprecated itself / bystander / nested one level down)"
              f" + {len(consumers)} consumers of the output of a deprecated task (direct / in a list, link / cleanup)",
        cases=graphs + len(repair) + len(consumers),
        distinct=len(sigs),
        failures=_dedup(failures),
    )


# --------------------------------------------------------------------------------------------------------------- C04/C07

# name -> how its dependencies are attached
SHAPES = {
    "chain3": [("A", {}), ("B", {"a": "A"}), ("C", {"a": "B"})],
    "diamond": [("A", {}), ("B", {"a": "A"}), ("C", {"a": "A"}), ("D", {"a": "B", "b": "C"})],
    "two_chains": [("A1", {}), ("A2", {"a": "A1"}), ("B1", {}), ("B2", {"a": "B1"})],
    "fan_list": [("A", {}), ("B", {}), ("C", {}), ("D", {"lst": ["A", "B", "C"]}), ("E", {"a": "D"})],
    "fan_dict": [("A", {}), ("B", {}), ("D", {"dct": {"u": "A", "v": "B"}}), ("E", {"a": "D"})],
    "nested": [("A", {}), ("B", {}), ("C", {"holder": "A", "holder2": "B"}), ("D", {"a": "C"})],
    "pretask": [("A", {}), ("B", {}), ("C", {"pre": ["A"]}), ("D", {"init": ["B"]}), ("E", {"a": "C"})],
    "cfg_pretask": [("A", {}), ("B", {}), ("C", {"holder_pre": ["A", "B"]}), ("D", {"lst": ["C"], "init": ["A"]})],
    # A declares task_outputs; B, C and D hold the submitted task object itself (directly, in a list, inside a configuration)
    "outputs_obj": [("A", {"out": []}), ("B", {"a_obj": "A"}), ("C", {"lst_obj": ["A"]}), ("D", {"holder_obj": "A"})],
}
MODES = ["all", "wait_inside", "wait_each"]


def _deps_of(attach):
    out = []
    for k, v in attach.items():
        if isinstance(v, str):
            out.append(v)
        elif isinstance(v, dict):
            out += list(v.values())
        else:
            out += list(v)
    return sorted(set(out))


def _c04_specs(tier, seed):
    rng = random.Random(seed)
    specs = []
    for shape, nodes in SHAPES.items():
        names = [n for n, _ in nodes]
        if tier == "quick":
            fails = [None] + rng.sample(names, 2)
            combos = [(f, rng.choice(MODES)) for f in fails]
        else:
            combos = [(f, m) for f in [None] + names for m in MODES]
        for fail, mode in combos:
            sleeps = {n: round(rng.choice([0.1, 0.15, 0.2, 0.3]), 2) for n in names}
            specs.append(dict(case=f"{shape}/fail={fail}/{mode}/sleeps={','.join(str(sleeps[n]) for n in names)}", shape=shape, fail=fail, mode=mode, sleeps=sleeps))
    return specs


def run_c04_c07(tier, seed):
    specs = _c04_specs(tier, seed)
    failures, sigs, _ = _run_cases("c04", specs, timeout=45, label="C04/C07")
    return dict(
        tool="cpython: real experiments on small DAGs of logging tasks (shared append-only log), one failing job at most",
        bound=f"{len(SHAPES)} DAG shapes (chain, diamond, 2 chains, fan-in via list / dict / nested config / pre-task / init-task / config pre-task / task object of a task with task_outputs) x failing job choice x submission mode",
        cases=len(specs),
        distinct=len(sigs),
        failures=_dedup(failures),
    )


# ============================================================================================================ worker side


class _Boom(Exception):
    pass


def _call(fn, timeout):
    """fn() in a daemon thread; returns ("ok", value) | ("exc", repr) | ("timeout", None)"""
    box = []

    def run():
        try:
            box.append(("ok", fn()))
        except BaseException as e:  # noqa
            box.append(("exc", repr(e)))

    th = threading.Thread(target=run, daemon=True)
    th.start()
    th.join(timeout)
    return box[0] if box else ("timeout", None)


def _quiet():
    import logging

    if os.environ.get("VERIF_WS_DEBUG"):
        logging.basicConfig(level=logging.DEBUG)
    else:
        logging.disable(logging.CRITICAL)


def _emit(failures, sigs, info=None):
    sys.stdout.write("\n" + MARK + json.dumps(dict(failures=failures[:6], sigs=sigs, info=info), default=str) + "\n")
    sys.stdout.flush()


def _quiesce(central, timeout=5.0):
    """experiment.__exit__ calls loop.stop() from the main thread: the scheduler thread only notices it at its next
    event, and runs one more iteration (it can still create a link / start a job after the experiment lock was released).
    We wake it up and wait for it, as the end of the process would do, so that successive runs do not overlap."""
    if central is None:
        return True
    try:
        central.loop.call_soon_threadsafe(lambda: None)
    except Exception:  # noqa
        pass
    central.join(timeout)
    return not central.is_alive()


def _settle(workdir: Path, timeout=4.0):
    """Waits (bounded) for job processes left running by an aborted run"""
    end = time.time() + timeout
    while time.time() < end:
        if not list(workdir.glob("jobs/*/*/*.pid")):
            return
        time.sleep(0.1)


# ------------------------------------------------------------------------------------------------------------ worker: C16


def _index(xpdir: Path):
    def links(d):
        out = {}
        if d.is_dir():
            for p in d.glob("*/*"):
                out[str(p.relative_to(d))] = dict(symlink=p.is_symlink(), target=str(p.resolve()), isdir=p.is_dir())
        return out

    return dict(jobs=links(xpdir / "jobs"), bak=links(xpdir / "jobs.bak"), bak_exists=(xpdir / "jobs.bak").exists())


def _probe_lock(workdir, name, timeout=3.0):
    """A subprocess that tries to enter the same experiment. Returns entered | raised | blocked"""
    env = dict(os.environ)
    env["PYTHONPATH"] = _pythonpath()
    env["PYTHONWARNINGS"] = "ignore"
    for attempt_timeout in (timeout, 3 * timeout):
        p = subprocess.Popen(
            [sys.executable, "-m", "bounded.workspaces", "probe_lock", str(workdir), name],
            stdout=subprocess.PIPE, stderr=subprocess.DEVNULL, env=env, cwd=VERIF, text=True, start_new_session=True,
        )
        lines = []
        th = threading.Thread(target=lambda: [lines.append(line.strip()) for line in p.stdout], daemon=True)
        th.start()
        # The clock starts when the probe says it is about to enter
        t0 = time.time()
        while time.time() - t0 < 10 and "TRYING" not in lines and p.poll() is None:
            time.sleep(0.02)
        try:
            p.wait(timeout=attempt_timeout)
        except subprocess.TimeoutExpired:
            try:
                os.killpg(p.pid, signal.SIGKILL)
            except OSError:
                pass
            p.wait(timeout=5)
        th.join(2)
        if "ENTERED" in lines:
            return "entered"
        if "TRYING" in lines:
            return "raised" if "RAISED" in lines else "blocked"
    return "inconclusive"


def _probe_lock_main(workdir, name):
    from experimaestro import experiment

    _quiet()
    xp = experiment(Path(workdir), name, port=-1)
    print("TRYING", flush=True)  # noqa: T201
    try:
        xp.__enter__()
    except BaseException:  # noqa
        print("RAISED", flush=True)  # noqa: T201
        os._exit(3)
    print("ENTERED", flush=True)  # noqa: T201
    os._exit(0)


def _worker_c16(spec):
    from experimaestro import experiment
    from experimaestro.scheduler import FailedExperiment
    from bounded import zoo_ws as z

    _quiet()
    failures, sigs, probes = [], [], []
    case = spec["case"]

    def fail(name, **kw):
        failures.append(dict(name=name, case=case, **kw))

    if True:  # (the temporary directory spec["tmp"] is owned and removed by the driver)
        tmp = spec["tmp"]
        wd = Path(tmp) / "ws"
        wd.mkdir()
        xpdir = wd / "xp" / "xpname"
        log = Path(tmp) / "log.txt"

        def mk(key):
            if key == "a1": return z.WsTask(x=1)
            if key == "a2": return z.WsTask(x=2)
            if key == "b1": return z.WsTaskB(y=1)
            return z.LogBase(name="f", log=log, fail=True, sleep=0.05)

        for i, run in enumerate(spec["runs"]):
            before = _index(xpdir)
            submitted, jobs = {}, []
            raised = failed_xp = False
            central = None
            tag = f"run {i} ({'+'.join(run['submit']) or '-'}:{run['end']})"
            try:
                with experiment(wd, "xpname", port=-1) as xp:
                    xp.setenv("PYTHONPATH", _pythonpath())
                    central = xp.central
                    if run["probe"]:
                        held = _index(xpdir)
                        outcome = _probe_lock(wd, "xpname")
                        probes.append(outcome)
                        if outcome == "entered":
                            fail("C16 a second process entered the experiment while it was held", run=tag)
                        elif outcome == "inconclusive":
                            fail("C16 lock probe inconclusive", run=tag)
                        if _index(xpdir) != held:
                            fail("C16 the job index changed while another process tried to enter the held experiment", run=tag)
                    for key in run["submit"]:
                        t = mk(key).submit()
                        job = t.__xpm__.job
                        submitted[str(job.relpath)] = str(job.path)
                        jobs.append(job)
                    if run["end"] == "raise_after_wait":
                        for job in jobs:
                            if _call(job.wait, 20)[0] == "timeout":
                                fail("C16 job.wait() did not return", run=tag)
                    if run["end"] != "ok":
                        raise _Boom()
            except _Boom:
                raised = True
            except FailedExperiment:
                failed_xp = True
            if not _quiesce(central):
                fail("C16 the scheduler thread did not stop after the with-block", run=tag)
            after = _index(xpdir)
            sigs.append([sorted(before["jobs"]), sorted(before["bak"]), sorted(run["submit"]), run["end"]])

            if not raised:
                if set(after["jobs"]) != set(submitted):
                    fail("C16 completed run: jobs/ is not exactly the set of submitted jobs", run=tag, extra=sorted(set(after["jobs"]) - set(submitted)), missing=sorted(set(submitted) - set(after["jobs"])))
                for rel, path in submitted.items():
                    e = after["jobs"].get(rel)
                    if e and not (e["symlink"] and e["isdir"] and e["target"] == str(Path(path).resolve())):
                        fail("C16 completed run: a link of jobs/ does not resolve to the job directory", run=tag, link=rel, entry=e, jobpath=path)
                if after["bak_exists"]:
                    fail("C16 completed run: jobs.bak remains", run=tag, bak=sorted(after["bak"]))
                if failed_xp != ("f" in run["submit"]):
                    fail("C16 FailedExperiment raised iff a job failed", run=tag, raised=failed_xp)
            else:
                if not after["bak_exists"]:
                    fail("C16 aborted run: jobs.bak was removed", run=tag)
                lost = (set(before["jobs"]) | set(before["bak"])) - (set(after["jobs"]) | set(after["bak"]))
                if lost:
                    fail("C16 aborted run: links of the last completed plan were lost", run=tag, lost=sorted(lost))
                missing = set(submitted) - set(after["jobs"])
                if missing:
                    if run["end"] == "raise_now":
                        fail("C16 aborted run: a submitted job has no link in jobs/", run=tag, missing=sorted(missing), note="exception raised right after submit()")
                    else:
                        fail("C16 aborted run (after the jobs ended): a submitted job has no link in jobs/", run=tag, missing=sorted(missing))
                _settle(wd)

        if spec.get("sameproc"):
            # A second experiment object of the SAME process while the first one is inside its with-block
            with experiment(wd, "xpname", port=-1) as xp:
                held = _index(xpdir)
                status, value = _call(lambda: experiment(wd, "xpname", port=-1).__enter__() and "entered", 4)
                now = _index(xpdir)
                probes.append("sameproc:" + (status if status != "ok" else "entered"))
                if status == "ok":
                    fail(
                        "C16 a second experiment of the same process entered while the first one holds the experiment",
                        index_before=sorted(held["jobs"]), index_after=sorted(now["jobs"]), bak_after=sorted(now["bak"]),
                    )
                _emit(failures, sigs, dict(probes=probes))
                sys.stdout.flush()
                os._exit(0)  # the process state (experiment.CURRENT, signal handlers) is not worth unwinding
    _emit(failures, sigs, dict(probes=probes))


# ----------------------------------------------------------------------------------------------------------- worker: C20a


def _worker_c20a(spec):
    from bounded import zoo_ws as z

    _quiet()
    rng = random.Random(spec["seed"])
    failures, sigs = [], set()
    cases = 0

    CFG = [z.NewCfg, z.DepCfg, z.DepCfg2]

    # Descriptions are plain data; `dep` marks say which class to use at that position
    def gen_cfg(p):
        return dict(t="cfg", x=rng.randrange(3), dep=rng.choice([0, 1, 2]) if rng.random() < p else 0)

    def gen_outer(p):
        return dict(t="outer", k=rng.randrange(2), c=gen_cfg(p) if rng.random() < 0.6 else None, dep=1 if rng.random() < p else 0)

    def gen_graph(p, depth):
        return dict(
            t="graph",
            k=rng.randrange(2),
            c=gen_cfg(p) if rng.random() < 0.5 else None,
            o=gen_outer(p) if rng.random() < 0.4 else None,
            lst=[gen_cfg(p) for _ in range(rng.choice([0, 0, 1, 2, 3]))],
            dup=rng.random() < 0.2,
            olst=[gen_outer(p) for _ in range(rng.choice([0, 0, 1, 2]))],
            dct={k: gen_cfg(p) for k in rng.sample(["u", "v", "w"], rng.choice([0, 0, 1, 2]))},
            sub=gen_graph(p, depth - 1) if depth > 0 and rng.random() < 0.5 else None,
        )

    def gen_task(p):
        return dict(t="task", x=rng.randrange(2), c=gen_cfg(p) if rng.random() < 0.5 else None, g=gen_graph(p, 1) if rng.random() < 0.6 else None, dep=1 if rng.random() < p else 0)

    def build(d, use_dep, count):
        if d is None:
            return None
        dep = d.get("dep", 0) if use_dep else 0
        if dep:
            count.append(d["t"])
        if d["t"] == "cfg":
            return CFG[dep](x=d["x"])
        if d["t"] == "outer":
            return (z.DepOuter if dep else z.NewOuter)(k=d["k"], c=build(d["c"], use_dep, count))
        if d["t"] == "graph":
            lst = [build(e, use_dep, count) for e in d["lst"]]
            if d["dup"] and lst:
                lst.append(lst[0])
            return z.Graph(
                k=d["k"], c=build(d["c"], use_dep, count), o=build(d["o"], use_dep, count), lst=lst,
                olst=[build(e, use_dep, count) for e in d["olst"]], dct={k: build(e, use_dep, count) for k, e in d["dct"].items()},
                sub=build(d["sub"], use_dep, count),
            )
        return (z.DepIdTask if dep else z.NewIdTask)(x=d["x"], c=build(d["c"], use_dep, count), g=build(d["g"], use_dep, count))

    def ident(o):
        return o.__xpm__.identifier.all.hex()

    def check(d, label):
        nonlocal cases
        cases += 1
        count = []
        try:
            with_dep, with_new = ident(build(d, True, count)), ident(build(d, False, []))
        except Exception as e:  # noqa
            failures.append(dict(name="C20 identifier computation raised", case=f"{label} {json.dumps(d)}"[:300], error=repr(e)))
            return
        sigs.add((d["t"], tuple(sorted(Counter(count).items()))))
        if with_dep != with_new:
            failures.append(dict(name="C20 identifier with a deprecated class differs from the one with its replacement", case=f"{label} {json.dumps(d)}"[:400], deprecated=with_dep, replacement=with_new))

    # Systematic: one deprecated instance at each position
    empty = dict(t="graph", k=0, c=None, o=None, lst=[], dup=False, olst=[], dct={}, sub=None)
    for dep in (1, 2):
        c = dict(t="cfg", x=1, dep=dep)
        check(c, "root")
        check({**empty, "c": c}, "param")
        check({**empty, "lst": [dict(t="cfg", x=0, dep=0), c]}, "list element")
        check({**empty, "lst": [c], "dup": True}, "list element twice")
        check({**empty, "dct": {"u": c}}, "dict value")
        check({**empty, "sub": {**empty, "c": c}}, "nested param")
        check({**empty, "o": dict(t="outer", k=0, c=c, dep=0)}, "nested in config")
        check({**empty, "o": dict(t="outer", k=0, c=c, dep=1)}, "nested in deprecated config")
        check({**empty, "olst": [dict(t="outer", k=1, c=c, dep=1)]}, "list of deprecated holding deprecated")
        check(dict(t="task", x=0, c=c, g=None, dep=0), "task param")
        check(dict(t="task", x=0, c=c, g={**empty, "dct": {"v": c}}, dep=1), "deprecated task")
    check(dict(t="outer", k=0, c=None, dep=1), "root outer")
    check(dict(t="task", x=1, c=None, g=None, dep=1), "root deprecated task")

    # Sanity (the comparison is not vacuous): a plain subclass does change the identifier; x matters
    if ident(z.NewCfg(x=1)) == ident(z.NewCfg(x=2)) or ident(z.Graph(c=z.NewCfg(x=1))) == ident(z.Graph(lst=[z.NewCfg(x=1)])):
        failures.append(dict(name="C20 sanity: identifiers do not distinguish different graphs", case="NewCfg(x=1) vs NewCfg(x=2)"))
    if ident(z.NewCfg(x=1)) == ident(z.NewOuter(k=1)):
        failures.append(dict(name="C20 sanity: identifiers do not distinguish different graphs", case="NewCfg vs NewOuter"))

    for i in range(spec["n"]):
        p = rng.choice([0.3, 0.6, 1.0])
        d = rng.choice([gen_graph, gen_graph, None, None])
        d = d(p, 2) if d else rng.choice([gen_task, gen_outer, gen_cfg])(p)
        check(d, f"random#{i}")

    _emit(failures, [list(map(str, s)) for s in sigs], dict(cases=cases))


# ----------------------------------------------------------------------------------------------------------- worker: C20b


def _snap(root: Path):
    """relative path -> ("d",) | ("l", target) | ("f", sha1)   (symlinks are not followed)"""
    out = {}
    for r, ds, fs in os.walk(root, followlinks=False):
        for n in ds + fs:
            p = Path(r) / n
            rel = str(p.relative_to(root))
            if p.is_symlink():
                out[rel] = ("l", os.readlink(p))
            elif p.is_dir():
                out[rel] = ("d",)
            else:
                out[rel] = ("f", hashlib.sha1(p.read_bytes()).hexdigest())
    return out


def _contents(snap, skip_params):
    return Counter(v[1] for k, v in snap.items() if v[0] == "f" and not (skip_params and k.endswith("/params.json")))


def _worker_c20b(spec):
    from experimaestro import experiment
    from experimaestro.scheduler import JobState
    from experimaestro.scheduler.workspace import RunMode
    from experimaestro.tools.jobs import fix_deprecated
    from bounded import zoo_ws as z

    _quiet()
    failures = []
    case = spec["case"]
    variant, state, fix, cleanup = spec["variant"], spec["state"], spec["fix"], spec["cleanup"]

    def fail(name, **kw):
        failures.append(dict(name=name, case=case, **kw))

    def meta_cfg(x, cls):
        """cls: RepOldCfg (before) / RepNewCfg (replacement) at the place of the class that gets deprecated"""
        from experimaestro import setmeta
        if variant == "meta_forced":            # the forced-in value at the Meta position is itself of the deprecated class
            return z.RepMetaTask(m=setmeta(cls(v=x), False), x=x)
        if variant == "meta_forced_bystander":  # the deprecated class is an ordinary parameter, another value is forced in
            return z.RepMetaTask(m=setmeta(z.RepNewCfg(v=x + 10), False), p=cls(v=x), x=x)
        # one level down: forced-in value of the deprecated class at the Meta position of a nested configuration, plus an unforced
        # (hence ignored) value at the Meta position of the task
        return z.RepMetaTask(h=z.RepMetaHolder(m=setmeta(cls(v=x), False), k=2), m=z.RepNewCfg(v=40), x=x)

    def old_cfg(x):
        if variant in C20_META_VARIANTS: return meta_cfg(x, z.RepOldCfg)
        if variant == "task_diff": return z.RepOldTask(x=x)
        if variant == "task_same": return z.RepSameOld(x=x)
        if variant == "inner": return z.RepInnerTask(p=z.RepOldCfg(v=x), x=x)
        return z.RepInnerTask(ps=[z.RepNewCfg(v=9), z.RepOldCfg(v=x)], x=x)

    def new_cfg(x):
        if variant in C20_META_VARIANTS: return meta_cfg(x, z.RepNewCfg)
        if variant == "task_diff": return z.RepNewTask(x=x)
        if variant == "task_same": return z.RepSameNew(x=x)
        if variant == "inner": return z.RepInnerTask(p=z.RepNewCfg(v=x), x=x)
        return z.RepInnerTask(ps=[z.RepNewCfg(v=9), z.RepNewCfg(v=x)], x=x)

    def rel(cfg):
        return f"{cfg.__xpmtype__.identifier}/{cfg.__xpm__.identifier.all.hex()}"

    if True:  # (the temporary directory spec["tmp"] is owned and removed by the driver)
        tmp = spec["tmp"]
        ws = Path(tmp) / "ws"
        ws.mkdir()
        jobs = ws / "jobs"
        log = Path(tmp) / "log.txt"
        xs = [1, 2] if spec["second"] else [1]

        # --- 1. populate with the classes as they were BEFORE the deprecation (real runs)
        olds = {}
        with experiment(ws, "populate", port=-1) as xp:
            xp.setenv("PYTHONPATH", _pythonpath())
            for x in xs:
                olds[x] = old_cfg(x).submit()
            other = z.WsTask(x=7).submit()
            if state == "other_real":
                new_ran = new_cfg(1).submit()
            if spec["bystanders"]:
                l0 = z.LogBase(name="l0", log=log).submit()
                z.LogTask(name="by-init", log=log).submit(init_tasks=[z.LogInit(dep=l0, log=log, name="lw-init")])
                z.LogTask(name="by-pre", log=log).add_pretasks(z.LogInit(dep=l0, log=log, name="lw-pre")).submit()
        old_rel = {x: str(t.__xpm__.job.relpath) for x, t in olds.items()}
        for x, t in olds.items():
            job = t.__xpm__.job
            if job.state != JobState.DONE or not job.donepath.is_file():
                fail("C20 setup: the former task did not run", x=x)
            (job.path / "result.bin").write_bytes(f"payload of {variant} x={x}\n".encode() * 3)
        other_path = other.__xpm__.job.path

        # --- 2. the classes become deprecated
        z.rep_deprecate_all()
        new_rel = {x: rel(new_cfg(x)) for x in xs}
        for x in xs:
            if rel(old_cfg(x)) != new_rel[x] or new_rel[x] == old_rel[x]:
                fail("C20 setup: deprecation should change the identifier to the one of the replacement", x=x, old=old_rel[x], new=new_rel[x], now=rel(old_cfg(x)))
        if variant in C20_META_VARIANTS:
            # the forced-in flag matters for the identifier (otherwise the case would not exercise anything)
            unforced = {"meta_forced": z.RepMetaTask(m=z.RepNewCfg(v=1), x=1), "meta_forced_bystander": z.RepMetaTask(m=z.RepNewCfg(v=11), p=z.RepNewCfg(v=1), x=1),
                        "meta_forced_nested": z.RepMetaTask(h=z.RepMetaHolder(m=z.RepNewCfg(v=1), k=2), m=z.RepNewCfg(v=40), x=1)}[variant]
            if rel(unforced) == new_rel[1]:
                fail("C20 setup: setmeta(cfg, False) at a Meta position should enter the identifier", new=new_rel[1])
        if state == "other_real" and str(new_ran.__xpm__.job.relpath) != new_rel[1]:
            fail("C20 setup: replacement job path", got=str(new_ran.__xpm__.job.relpath), want=new_rel[1])

        # --- 3. state of the new path for x=1 (x=2, if any, is fresh)
        new1, old1 = jobs / new_rel[1], jobs / old_rel[1]
        if state != "fresh":
            new1.parent.mkdir(exist_ok=True)
        if state == "linked":
            new1.symlink_to(old1)
            if spec.get("link_all"):
                for x in xs[1:]:
                    (jobs / new_rel[x]).symlink_to(jobs / old_rel[x])
        elif state == "dangling":
            new1.symlink_to(jobs / "gone" / "nowhere")
        elif state == "other_plain":
            new1.mkdir()
            (new1 / "other.txt").write_text("other content\n")
        elif state == "other_link":
            new1.symlink_to(other_path)
        blocked = state.startswith("other")

        # --- 4. repair
        if spec.get("order"):
            import pathlib
            _glob = pathlib.Path.glob
            _rev = spec["order"] == "desc"
            pathlib.Path.glob = lambda self, pattern, **kw: iter(sorted(_glob(self, pattern, **kw), reverse=_rev))
        before = _snap(jobs)
        status, value = _call(lambda: fix_deprecated(ws, fix, cleanup), 30)
        if status != "ok":
            fail("C20 fix_deprecated raised or hung", status=status, error=value)
        after = _snap(jobs)

        # Expected tree
        exp = dict(before)
        if fix:
            for x in xs:
                o, n = old_rel[x], new_rel[x]
                if x == 1 and blocked and not (cleanup and state == "other_link"):
                    continue
                exp[n.rsplit("/", 1)[0]] = ("d",)
                if not cleanup:
                    exp[n] = ("l", str(jobs / o))
                else:
                    exp.pop(n, None)
                    for k in [k for k in exp if k == o or k.startswith(o + "/")]:
                        exp[n + k[len(o):]] = exp.pop(k)

        def norm(s):
            rewritten = {new_rel[x] + "/params.json" for x in xs} if (cleanup and fix) else set()
            return {k: (("f", "*") if k in rewritten and v[0] == "f" else v) for k, v in s.items()}

        if norm(after) != norm(exp):
            a, e = norm(after), norm(exp)
            diff = dict(unexpected={k: a[k] for k in sorted(a) if a.get(k) != e.get(k)}, missing={k: e[k] for k in sorted(e) if k not in a})
            if not fix:
                fail("C20 fix=False changed the workspace", **diff)
            elif blocked and not (cleanup and state == "other_link"):
                fail("C20 the new path existed with other content but the workspace was changed", **diff)
            else:
                fail("C20 the repaired workspace is not the expected one", **diff)
        if fix and cleanup and state == "other_link" and after.get(new_rel[1]) != before.get(new_rel[1]):
            fail("C20 cleanup mode replaced a pre-existing link to other content at the new path", before=before.get(new_rel[1]), after=after.get(new_rel[1]))

        # No job data file is ever deleted
        lost = _contents(before, fix and cleanup) - _contents(after, fix and cleanup)
        if lost:
            fail("C20 job data files were deleted by the repair", lost=sum(lost.values()))

        # Reachability under the new identifier
        if fix:
            for x in xs:
                if x == 1 and blocked and not (cleanup and state == "other_link"):
                    continue
                n, o = jobs / new_rel[x], jobs / old_rel[x]
                payload = f"payload of {variant} x={x}\n".encode() * 3
                ok = (n / "result.bin").is_file() and (n / "result.bin").read_bytes() == payload and (n / "params.json").is_file()
                if not ok:
                    fail("C20 job data is not reachable under the new identifier", x=x, new=new_rel[x])
                elif cleanup and (n.is_symlink() or o.exists()):
                    fail("C20 cleanup mode should move the directory", x=x, new_is_link=n.is_symlink(), old_exists=o.exists())
                elif not cleanup and not (n.is_symlink() and n.resolve() == o.resolve() and o.is_dir() and not o.is_symlink()):
                    fail("C20 link mode should link the new path to the old directory", x=x)

        # Idempotence
        status, value = _call(lambda: fix_deprecated(ws, fix, cleanup), 30)
        if status != "ok":
            fail("C20 fix_deprecated raised or hung", status=status, error=value, second_call=True)
        again = _snap(jobs)
        if again != after:
            fail("C20 a second repair changed the workspace", changed=sorted(k for k in set(again) | set(after) if again.get(k) != after.get(k))[:6])

        # --- 5. resubmission of the replacement task
        if fix and not blocked:
            real = spec["resubmit"] == "real"
            tasks = {}
            failed_xp = None
            try:
                with experiment(ws, "again", port=-1, run_mode=RunMode.NORMAL if real else RunMode.DRY_RUN) as xp:
                    xp.setenv("PYTHONPATH", _pythonpath())
                    for x in xs:
                        t = new_cfg(x)
                        t.submit()
                        job = t.__xpm__.job
                        tasks[x] = dict(job=job, path_exists=job.path.exists(), done_visible=job.donepath.is_file(), data=(job.path / "result.bin").is_file(),
                                        markers=sorted(p.name for p in job.path.glob("*.done")))
                    if real:
                        for x in xs:
                            tasks[x]["wait"] = _call(tasks[x]["job"].wait, 20)
            except Exception as e:  # noqa
                failed_xp = repr(e)
            if failed_xp:
                fail("C20 resubmission of the replacement failed", error=failed_xp)
            for x, info in tasks.items():
                job = info["job"]
                if not (info["path_exists"] and info["data"]):
                    fail("C20 resubmitted replacement does not find the job directory", x=x, path=str(job.relpath))
                elif not info["done_visible"]:
                    fail("C20 repaired job is not seen as done by the replacement task", x=x, looked_for=job.donepath.name, markers_in_directory=info["markers"])
                elif real and (info["wait"] != ("ok", JobState.DONE) or job.starttime is not None):
                    fail("C20 repaired job is not seen as done by the replacement task", x=x, wait=str(info["wait"]), rerun=job.starttime is not None)
                if real and job.starttime is not None and info["done_visible"]:
                    fail("C20 resubmission re-ran a job whose done marker was visible", x=x)

    _emit(failures, [[variant, state, fix, cleanup, spec["resubmit"], spec["second"], spec["bystanders"]]])


# ------------------------------------------------------------------------------------------- worker: C20 (c) consumers


def _worker_c20c(spec):
    """A job that holds the *output* of a task whose class becomes deprecated (the deprecated class only occurs behind the
    task link of a parameter value): its identifier changes, so the repair has to make its directory reachable too."""
    from experimaestro import experiment
    from experimaestro.scheduler import JobState
    from experimaestro.scheduler.workspace import RunMode
    from experimaestro.tools.jobs import fix_deprecated
    from bounded import zoo_ws as z

    _quiet()
    failures = []
    case = spec["case"]
    cleanup, position = spec["cleanup"], spec["position"]

    def fail(name, **kw):
        failures.append(dict(name=name, case=case, **kw))

    def consumer(out):
        return z.RepConsumer(src=out) if position == "direct" else z.RepConsumer(src=z.RepOut(k=5), hs=[z.RepOut(k=6), out])

    tmp = spec["tmp"]
    ws = Path(tmp) / "ws"
    ws.mkdir()
    jobs = ws / "jobs"
    payload = b"payload of the consumer\n" * 3
    with experiment(ws, "populate", port=-1) as xp:
        xp.setenv("PYTHONPATH", _pythonpath())
        out = z.RepOldProd(x=1).submit()
        cons = consumer(out)
        cons.submit()
    job = cons.__xpm__.job
    old_rel = str(job.relpath)
    if job.state != JobState.DONE or not job.donepath.is_file():
        fail("C20 setup: the consumer did not run")
    (job.path / "result.bin").write_bytes(payload)

    z.rep_deprecate_all()
    with experiment(Path(tmp) / "dry", "dry", port=-1, run_mode=RunMode.DRY_RUN):
        t = consumer(z.RepNewProd(x=1).submit())
        t.submit()
        new_rel = str(t.__xpm__.job.relpath)
    if new_rel == old_rel:
        fail("C20 setup: deprecating the producer should change the identifier of the consumer", old=old_rel)

    before = _snap(jobs)
    status, value = _call(lambda: fix_deprecated(ws, True, cleanup), 30)
    if status != "ok":
        fail("C20 fix_deprecated raised or hung", status=status, error=value)
    after = _snap(jobs)
    lost = _contents(before, cleanup) - _contents(after, cleanup)
    if lost:
        fail("C20 job data files were deleted by the repair", lost=sum(lost.values()))
    n = jobs / new_rel
    if not ((n / "result.bin").is_file() and (n / "result.bin").read_bytes() == payload and (n / "params.json").is_file()):
        fail("C20 job data is not reachable under the new identifier", job="consumer of the output of a deprecated task", new=new_rel, position=position)
    else:
        with experiment(ws, "again", port=-1, run_mode=RunMode.DRY_RUN):
            t = consumer(z.RepNewProd(x=1).submit())
            t.submit()
            j = t.__xpm__.job
            if not (j.path.exists() and (j.path / "result.bin").is_file()):
                fail("C20 resubmitted replacement does not find the job directory", path=str(j.relpath))
            elif not j.donepath.is_file():
                fail("C20 repaired job is not seen as done by the replacement task", looked_for=j.donepath.name)
    _emit(failures, [["consumer", position, cleanup]])


# ------------------------------------------------------------------------------------------------------------ worker: C04


def _worker_c04(spec):
    from experimaestro import experiment
    from experimaestro.scheduler import FailedExperiment, JobState
    from bounded import zoo_ws as z

    _quiet()
    failures = []
    case = spec["case"]
    nodes = SHAPES[spec["shape"]]
    fail_node, mode, sleeps = spec["fail"], spec["mode"], spec["sleeps"]
    deps = {n: _deps_of(a) for n, a in nodes}

    def fail(name, **kw):
        failures.append(dict(name=name, case=case, **kw))

    # transitive dependents of the failing node
    doomed = set()
    if fail_node:
        changed = True
        while changed:
            changed = False
            for n in deps:
                if n not in doomed and n != fail_node and any(d == fail_node or d in doomed for d in deps[n]):
                    doomed.add(n)
                    changed = True

    if True:  # (the temporary directory spec["tmp"] is owned and removed by the driver)
        tmp = spec["tmp"]
        wd = Path(tmp) / "ws"
        wd.mkdir()
        log = Path(tmp) / "log.txt"
        log.touch()
        out = {}
        tasks = {}
        jobs = {}
        waits_inside = {}
        raised = None
        t0 = time.time()

        def body():
            nonlocal raised
            try:
                with experiment(wd, "dag", port=-1) as xp:
                    xp.setenv("PYTHONPATH", _pythonpath())
                    for name, attach in nodes:
                        kw = dict(name=name, log=log, fail=(name == fail_node), sleep=sleeps[name])
                        for k in ("a", "b"):
                            if k in attach: kw[k] = out[attach[k]]
                        if "lst" in attach: kw["lst"] = [out[d] for d in attach["lst"]]
                        if "dct" in attach: kw["dct"] = {k: out[d] for k, d in attach["dct"].items()}
                        if "holder" in attach: kw["holder"] = z.Holder(inner=out[attach["holder"]])
                        if "holder2" in attach: kw["holder2"] = z.Holder2(holder=z.Holder(inner=out[attach["holder2"]]))
                        if "holder_pre" in attach:
                            inner, pre = attach["holder_pre"]
                            kw["holder"] = z.Holder(inner=out[inner]).add_pretasks(z.LogInit(dep=out[pre], log=log, name=f"lw-{name}-{pre}"))
                        if "a_obj" in attach: kw["a"] = tasks[attach["a_obj"]]
                        if "lst_obj" in attach: kw["lst"] = [tasks[d] for d in attach["lst_obj"]]
                        if "holder_obj" in attach: kw["holder"] = z.Holder(inner=tasks[attach["holder_obj"]])
                        task = (z.LogTaskOut if "out" in attach else z.LogTask)(**kw)
                        tasks[name] = task
                        for d in attach.get("pre", []):
                            task.add_pretasks(z.LogInit(dep=out[d], log=log, name=f"lw-{name}-{d}"))
                        init = [z.LogInit(dep=out[d], log=log, name=f"lw-{name}-{d}") for d in attach.get("init", [])]
                        out[name] = task.submit(init_tasks=init) if init else task.submit()
                        jobs[name] = task.__xpm__.job
                        if mode == "wait_each":
                            waits_inside[name] = _call(jobs[name].wait, 20)
                    if mode == "wait_inside":
                        for name in jobs:
                            waits_inside[name] = _call(jobs[name].wait, 20)
            except FailedExperiment:
                raised = "FailedExperiment"
            except BaseException as e:  # noqa
                raised = repr(e)

        def on_hang():
            fail("C04/C07 the experiment did not terminate (hang)", after=f"{time.time() - t0:.1f}s", log=log.read_text()[-300:], states={n: str(j.state) for n, j in jobs.items()})
            _emit(failures, [])
            os._exit(0)

        watchdog = threading.Timer(35, on_hang)
        watchdog.daemon = True
        watchdog.start()
        body()  # main thread: experiment.__enter__ installs a signal handler
        watchdog.cancel()
        elapsed = time.time() - t0

        if raised not in (None, "FailedExperiment"):
            fail("C04/C07 the experiment raised an unexpected exception", error=raised)
        elif (raised == "FailedExperiment") != (fail_node is not None):
            fail("C04/C07 FailedExperiment is raised iff some job failed", raised=raised, failing=fail_node)

        # --- the log
        events = []
        for i, line in enumerate(log.read_text().splitlines()):
            name, ev, t = line.rsplit(" ", 2)
            events.append((name, ev, float(t), i))
        pos = {}
        for n, ev, t, i in events:
            pos.setdefault((n, ev), (i, t))
        counts = Counter((n, ev) for n, ev, _, _ in events)
        for (n, ev), c in counts.items():
            # (a pre-task is run again by every job whose parameters contain the configuration it is attached to)
            if c > 1 and ev != "lw":
                fail("C04 a job ran more than once", job=n, event=ev, count=c)
        for name in deps:
            started = (name, "start") in pos
            if started:
                for d in deps[name]:
                    if (d, "end") not in pos or pos[(d, "end")][0] > pos[(name, "start")][0] or pos[(d, "end")][1] > pos[(name, "start")][1] + 1e-3:
                        fail("C04 a job started before a job it depends on had ended successfully", job=name, dependency=d, log=log.read_text()[-400:])
            job = jobs.get(name)
            state = job.state if job else None
            waited = _call(job.wait, 8) if job else None
            inside = waits_inside.get(name)
            if name == fail_node:
                want, ok_log = JobState.ERROR, started and (name, "fail") in pos and (name, "end") not in pos
            elif name in doomed:
                want, ok_log = JobState.ERROR, not started
            else:
                want, ok_log = JobState.DONE, started and (name, "end") in pos
            if not ok_log:
                if name in doomed:
                    fail("C07 a dependent of the failed job was started", job=name, failing=fail_node, log=log.read_text()[-400:])
                elif name == fail_node:
                    fail("C07 the failing job did not run as told", job=name, log=log.read_text()[-400:])
                else:
                    fail("C07 a job that does not depend on the failed job did not run to completion", job=name, failing=fail_node, log=log.read_text()[-400:])
            if state != want or waited != ("ok", want) or (inside is not None and inside != ("ok", want)):
                fail("C07 job state / job.wait() is not the expected final state", job=name, failing=fail_node, expected=str(want), state=str(state), wait_after=str(waited), wait_inside=str(inside))
            if want == JobState.DONE and job is not None and not job.donepath.is_file():
                fail("C07 a DONE job has no done marker", job=name)
        # lightweight tasks run in the process of their job, after the job they hold has ended
        for n, ev, t, i in events:
            if ev == "lw":
                _, owner, d = n.split("-")
                if (d, "end") not in pos or pos[(d, "end")][0] > i:
                    fail("C04 a pre/init task ran before the job it holds had ended", lw=n)
                if (owner, "start") in pos and pos[(owner, "start")][0] < pos[(n, "lw")][0]:
                    fail("C04 a pre/init task did not run before its task", lw=n)

    _emit(failures, [[spec["shape"], fail_node, mode, sorted(doomed)]], dict(elapsed=round(elapsed, 1)))


# ---------------------------------------------------------------------------------------------------------------- main

if __name__ == "__main__":
    kind = sys.argv[1]
    if kind == "probe_lock":
        _probe_lock_main(sys.argv[2], sys.argv[3])
    else:
        _spec = json.loads(sys.stdin.read())
        {"c16": _worker_c16, "c20a": _worker_c20a, "c20b": _worker_c20b, "c20c": _worker_c20c, "c04": _worker_c04}[kind](_spec)
        sys.stdout.flush()
        os._exit(0)
