"""Importable Config/Task classes for bounded/workspaces.py (never define these in __main__).

Job processes import this module (PYTHONPATH=/repo/src:/verif is set on the experiment)."""
import os
import time
from pathlib import Path
from typing import Dict, List, Optional

from experimaestro import Annotated, Config, LightweightTask, Meta, Param, PathGenerator, Task, deprecate, field, pathgenerator


# --------------------------------------------------------------------------- C16: tiny tasks


class WsTask(Task):
    """Does (almost) nothing"""

    x: Param[int]

    def execute(self):
        print(self.x)  # noqa: T201


class WsTaskB(Task):
    """Another task identifier (another directory under jobs/)"""

    y: Param[int]

    def execute(self):
        print(self.y)  # noqa: T201


# --------------------------------------------------------------------------- C04/C07: logging tasks


def _log(path: Path, text: str):
    # One O_APPEND write per line: atomic w.r.t. the other job processes
    fd = os.open(str(path), os.O_WRONLY | os.O_APPEND | os.O_CREAT, 0o644)
    try:
        os.write(fd, (text + "\n").encode())
    finally:
        os.close(fd)


class LogBase(Task):
    name: Param[str]
    log: Meta[Path]
    fail: Param[bool] = False
    sleep: Meta[float] = 0.1

    def execute(self):
        _log(self.log, f"{self.name} start {time.time():.6f}")
        time.sleep(self.sleep)
        if self.fail:
            _log(self.log, f"{self.name} fail {time.time():.6f}")
            raise AssertionError(f"{self.name} was told to fail")
        _log(self.log, f"{self.name} end {time.time():.6f}")


class Holder(Config):
    """A plain configuration holding a task output"""

    inner: Param[LogBase]


class Holder2(Config):
    holder: Param[Holder]


class LogInit(LightweightTask):
    """A lightweight (pre/init) task holding a task output"""

    dep: Param[LogBase]
    log: Meta[Path]
    name: Param[str]

    def execute(self):
        _log(self.log, f"{self.name} lw {time.time():.6f}")


class LogTask(LogBase):
    a: Param[Optional[LogBase]] = None
    b: Param[Optional[LogBase]] = None
    lst: Param[List[LogBase]] = []
    dct: Param[Dict[str, LogBase]] = {}
    holder: Param[Optional[Holder]] = None
    holder2: Param[Optional[Holder2]] = None


class OutCfg(Config):
    name: Param[str]


class LogTaskOut(LogTask):
    """A task that declares what submit() returns; consumers may still hold the task object itself"""

    def task_outputs(self, dep) -> OutCfg:
        return dep(OutCfg(name=self.name))


# --------------------------------------------------------------------------- C20 (a): identifiers


class NewCfg(Config):
    __xpmid__ = "verif.ws.newcfg"
    x: Param[int] = 0


@deprecate
class DepCfg(NewCfg):
    __xpmid__ = "verif.ws.depcfg"


@deprecate
class DepCfg2(DepCfg):
    """Deprecated twice: replaced by DepCfg which is itself replaced by NewCfg"""

    __xpmid__ = "verif.ws.depcfg2"


class NewOuter(Config):
    """A replacement class which itself has a configuration parameter"""

    __xpmid__ = "verif.ws.newouter"
    c: Param[Optional[NewCfg]] = None
    k: Param[int] = 0


@deprecate
class DepOuter(NewOuter):
    __xpmid__ = "verif.ws.depouter"


class Graph(Config):
    __xpmid__ = "verif.ws.graph"
    c: Param[Optional[NewCfg]] = None
    o: Param[Optional[NewOuter]] = None
    lst: Param[List[NewCfg]] = []
    olst: Param[List[NewOuter]] = []
    dct: Param[Dict[str, NewCfg]] = {}
    sub: Param[Optional["Graph"]] = None
    k: Param[int] = 0


class NewIdTask(Task):
    __xpmid__ = "verif.ws.newidtask"
    c: Param[Optional[NewCfg]] = None
    g: Param[Optional[Graph]] = None
    x: Param[int] = 0

    def execute(self):
        pass


@deprecate
class DepIdTask(NewIdTask):
    __xpmid__ = "verif.ws.depidtask"


# --------------------------------------------------------------------------- C20 (b): repair command
# The "Old*" classes are NOT deprecated at import: workspaces are first populated with them (params.json is written
# under the former identifier), then `Old*.__xpmtype__.deprecate()` is called (as tests/test_tasks.py does).


class RepNewTask(Task):
    """Replacement task; the former identifier has ANOTHER last component (job file names differ)"""

    __xpmid__ = "verif.rep.newtask"
    x: Param[int]

    def execute(self):
        print(self.x)  # noqa: T201


class RepOldTask(RepNewTask):
    __xpmid__ = "verif.rep.oldtask"


class RepSameNew(Task):
    """Replacement task; the former identifier has the SAME last component (job file names are the same)"""

    __xpmid__ = "verif.rep.new.sametask"
    x: Param[int]

    def execute(self):
        print(self.x)  # noqa: T201


class RepSameOld(RepSameNew):
    __xpmid__ = "verif.rep.old.sametask"


class RepNewCfg(Config):
    __xpmid__ = "verif.rep.newcfg"
    v: Param[int] = 0


class RepOldCfg(RepNewCfg):
    __xpmid__ = "verif.rep.oldcfg"


class RepInnerTask(Task):
    """Task whose parameter (direct, or list element) is of a class that gets deprecated"""

    __xpmid__ = "verif.rep.innertask"
    p: Param[Optional[RepNewCfg]] = None
    ps: Param[List[RepNewCfg]] = []
    x: Param[int] = 0

    def execute(self):
        print(self.x)  # noqa: T201


class RepOut(Config):
    __xpmid__ = "verif.rep.out"
    k: Param[int] = 0


class RepNewProd(Task):
    """Replacement producer: submit() returns another configuration (marked as output of the task)"""

    __xpmid__ = "verif.rep.prod"
    x: Param[int]

    def task_outputs(self, dep) -> RepOut:
        return dep(RepOut(k=self.x))

    def execute(self):
        print(self.x)  # noqa: T201


class RepOldProd(RepNewProd):
    """(same last component as its replacement: the job file names do not change)"""

    __xpmid__ = "verif.rep.old.prod"


class RepConsumer(Task):
    """Holds the *output* of a producer: the producer's class only occurs behind the task link of that output"""

    __xpmid__ = "verif.rep.consumer"
    src: Param[RepOut]
    hs: Param[List[RepOut]] = []

    def execute(self):
        print(self.src.k)  # noqa: T201


REP_OLD_CLASSES = [RepOldTask, RepSameOld, RepOldCfg, RepOldProd]


def rep_deprecate_all():
    for cls in REP_OLD_CLASSES:
        xpmtype = cls.__getxpmtype__()
        if not xpmtype.deprecated:
            xpmtype.deprecate()


class DictHolder(Config):
    """used by bounded/findings.py (C12 finding: dict value with a "type" key)"""
    d: Param[Dict[str, str]]


# ---- classes of the recorded finding "default value that is a configuration" (bounded/findings.py)
class FdOptimizer(Config):
    lr: Param[float] = 1e-3
    verbose: Meta[bool] = False


class FdLearner(Config):
    epochs: Param[int]
    optimizer: Param[FdOptimizer] = FdOptimizer(lr=1e-3)


class FdTokenizer(Config):
    lowercase: Param[bool] = True
    cache: Meta[Path] = field(default_factory=PathGenerator("cache"))


class FdIndexer(Config):
    name: Param[str]
    tokenizer: Param[FdTokenizer] = FdTokenizer(lowercase=True)


# ---- C20 (b) repair command, graphs holding a configuration forced into the signature with setmeta(cfg, False) at a Meta position
# (appended; uses RepNewCfg / RepOldCfg above: RepOldCfg is deprecated by rep_deprecate_all() after the workspace was populated)
class RepMetaHolder(Config):
    __xpmid__ = "verif.rep.metaholder"
    m: Meta[Optional[RepNewCfg]] = None
    k: Param[int] = 0


class RepMetaTask(Task):
    """`m` (and `h.m`) are Meta positions: a configuration there only counts for the identifier when it is flagged
    setmeta(value, False)"""

    __xpmid__ = "verif.rep.metatask"
    m: Meta[Optional[RepNewCfg]] = None
    p: Param[Optional[RepNewCfg]] = None
    h: Param[Optional[RepMetaHolder]] = None
    x: Param[int] = 0

    def execute(self):
        print(self.x)  # noqa: T201


# ---- tagged values (bounded/extra.py)
class TgCfg(Config):
    f: Param[float]
    i: Param[int]
    s: Param[str] = "x"


class TgOuter(Config):
    inner: Param[TgCfg]
    k: Param[int] = 0


# ---- classes of the recorded finding "validated flag survives a rejected submission" (bounded/findings.py)
class VfB(Config):
    x: Meta[int]


class VfA(Config):
    b: Param[VfB]


class VfBad(Config):
    y: Meta[int]


class VfT1(Task):
    a: Param[VfA]
    bad: Param[VfBad]

    def execute(self):
        pass


class VfT2(Task):
    a: Param[VfA]

    def execute(self):
        pass


# ---- round-5 additions (bounded/extra.py)
class EqSub(Config):
    x: Param[int]
    out: Annotated[Path, pathgenerator("out.txt")]


class EqHolder(Config):
    k: Param[int]
    sub: Param[EqSub] = EqSub(x=1)


class EqHolderOld(Config):
    __xpmid__ = "bounded.zoo_ws.eqholder"
    k: Param[int]


class FalsyBag(Config):
    """a configuration whose runtime object is falsy when its list is empty"""
    items: Param[List[int]] = []

    def __len__(self):
        return len(self.items)

    def __post_init__(self):
        self.inits = getattr(self, "inits", 0) + 1


class FalsyLoad(LightweightTask):
    bag: Param[FalsyBag]

    def execute(self):
        self.bag.loaded = getattr(self.bag, "loaded", 0) + 1


class FalsyHolder(Config):
    bag: Param[FalsyBag]
    k: Param[int] = 0
