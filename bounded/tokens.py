"""Bounded stand-in for C08/C09 (never counted as proved): the real CounterToken / ProcessCounterToken methods run
on materialised token directories for every (total, existing holdings, request) of a small grid."""
import itertools
import os
import shutil
import tempfile
import threading
from pathlib import Path


class _Job:
    def __init__(self, ident, base):
        self.identifier = ident
        self.basepath = base


def _mk_token(d: Path, total: int):
    """a real CounterToken built by its own __init__ (so that every attribute the class relies on exists), with the directory
    watcher switched off: no watcher threads in the harness"""
    import experimaestro.tokens as T

    class _NoWatch:
        def fswatch(self, *a, **k):
            return None

    orig = T.ipcom
    T.ipcom = lambda: _NoWatch()
    try:
        t = T.CounterToken("tok", d, total)
    finally:
        T.ipcom = orig
    return t


def _dep(token, ident, count, base):
    from experimaestro.tokens import CounterTokenDependency
    d = CounterTokenDependency(token, count)
    d.target = _Job(ident, base)
    return d


def _disk_sum(d: Path):
    s = 0
    for p in d.glob("*.token"):
        s += int(p.read_text().splitlines()[0])
    return s


def run_counter_token(tier, seed):
    from experimaestro.locking import LockError
    import experimaestro.tokens as T
    failures, cases, distinct = [], 0, set()
    totals = range(0, 5) if tier == "quick" else range(0, 7)
    orig_watch = T.TokenFile.watch
    T.TokenFile.watch = lambda self: None      # foreign-holder watcher threads are outside C08 (DESIGN: N/A part of C09)
    root = Path(tempfile.mkdtemp(prefix="verif-tok-"))
    try:
        for total in totals:
            for held in itertools.product(range(0, 3), repeat=2):          # two pre-existing holders
                for req in range(0, total + 3):
                    cases += 1
                    d = root / f"t{cases}"
                    d.mkdir()
                    tok = _mk_token(d, total)
                    for i, h in enumerate(held):
                        if h:
                            (d / f"other{i}.token").write_text(f"{h}\n/nonexistent/job{i}\n")
                    before = _disk_sum(d)
                    dep = _dep(tok, "me", req, "/nonexistent/me")
                    case = dict(total=total, held=list(held), request=req)
                    try:
                        tok.acquire(dep)
                        got = True
                    except LockError:
                        got = False
                    after = _disk_sum(d)
                    distinct.add((total, sum(held), req, got))
                    if before <= total and after > total:
                        failures.append(dict(name="C08 capacity exceeded after acquire", case=f"acquire total={total} held={held} req={req}", **case, disk_after=after))
                    if got and after != before + req:
                        failures.append(dict(name="C08 acquire did not record the request", case=f"acquire-record total={total} held={held} req={req}", **case, disk_after=after))
                    if (not got) and (after != before or total - before >= req):
                        failures.append(dict(name="C08 acquire refused although capacity suffices / changed the disk", case=f"refuse total={total} held={held} req={req}", **case, disk_after=after))
                    if got:
                        tok.release(dep)
                        if _disk_sum(d) != before:
                            failures.append(dict(name="C09 release does not restore the holdings", case=f"release total={total} held={held} req={req}", **case, disk_after=_disk_sum(d)))
                    shutil.rmtree(d)
    finally:
        T.TokenFile.watch = orig_watch
        shutil.rmtree(root, ignore_errors=True)
    return dict(tool="cpython (real CounterToken.acquire/release/_update/TokenFile on a temp directory)", bound=f"total<{max(totals)+1}, 2 holders x {{0,1,2}}, request<=total+2",
                cases=cases, distinct=len(distinct), failures=failures[:5])


def run_process_token(tier, seed):
    from experimaestro.tokens import ProcessCounterToken, CounterTokenDependency
    from experimaestro.locking import LockError
    failures, cases = [], 0
    for total in range(0, 6):
        for taken in range(0, total + 1):
            for req in range(0, total + 2):
                cases += 1
                tok = ProcessCounterToken(total)
                tok.available = total - taken
                dep = CounterTokenDependency(tok, req)
                try:
                    tok.acquire(dep); got = True
                except LockError:
                    got = False
                if tok.available < 0 or (got != (req <= total - taken)):
                    failures.append(dict(name="C08 process token", case=f"ptoken total={total} taken={taken} req={req}", available=tok.available))
                if got:
                    tok.release(dep)
                    if tok.available != total - taken:
                        failures.append(dict(name="C09 process token release", case=f"ptoken-release total={total} taken={taken} req={req}"))
    return dict(tool="cpython (real ProcessCounterToken)", bound="total<6", cases=cases, distinct=cases, failures=failures[:5])
