"""Native reproductions of the recorded findings (each returns the standard bounded-check dict; a failure here is a
*known* finding when it is listed in /verif/known_findings.json, a new violation otherwise)."""
import asyncio
import shutil, tempfile
import types
from pathlib import Path


def run_c06_lost_ready(tier, seed):
    """C06: after an aborted start (a dependency lock could not be taken) the READY written by a token release that
    arrives while aio_start unwinds is overwritten by `job.state = WAITING`: the job sleeps with unsatisfied == 0.
    Drives the real Scheduler.aio_submit / Dependency.check / Job.dependencychanged with a stub aio_start that
    follows the abort path of the real one (failed acquire -> check -> await while unwinding -> return WAITING)."""
    from experimaestro.scheduler import base
    from experimaestro.scheduler.base import Scheduler, Job, JobState
    from experimaestro.scheduler.dependencies import Dependency, DependencyStatus, Resource
    tmp = Path(tempfile.mkdtemp(prefix="verif-c06-"))

    class FakeXP:
        jobspath = tmp / "xp" / "jobs"; alt_jobspaths = []
        unfinishedJobs = 1; failedJobs = {}; server = None

    class TokenLike(Resource):
        pass

    class Dep(Dependency):
        cur = DependencyStatus.OK
        def status(self): return self.cur

    class J(Job):
        def __init__(self):
            Resource.__init__(self)
            self.state = JobState.UNSCHEDULED; self.unsatisfied = 0; self.failure_status = None
            self.dependencies = set(); self._process = None
        relpath = Path("t/abc"); path = tmp / "jobs" / "t" / "abc"; jobpath = path; identifier = "abc"; name = "t"
        def __str__(self): return "Job[abc]"
        async def aio_process(self): return None
        def done_handler(self): pass

    out = {}

    async def main():
        xp = FakeXP(); xp.central = types.SimpleNamespace(exitCondition=asyncio.Condition())
        saved = base.experiment.CURRENT
        base.experiment.CURRENT = types.SimpleNamespace(jobspath=xp.jobspath, alt_jobspaths=[])
        try:
            s = object.__new__(Scheduler); s.xp = xp; s.listeners = set(); s.waitingjobs = set(); s.jobs = {}
            S2 = type("S2", (Scheduler,), {"loop": property(lambda self: asyncio.get_running_loop())})
            s.__class__ = S2
            job = J(); dep = Dep(TokenLike()); job.dependencies.add(dep)
            started = []

            async def release_arrives():
                dep.cur = DependencyStatus.OK; dep.check()          # what Token.aio_notify schedules

            async def aio_start(j):
                started.append(1)
                if len(started) > 1:
                    return JobState.DONE
                dep.cur = DependencyStatus.WAIT                     # acquire failed: token taken by someone else
                dep.check()                                         # real code: dependency.check() before return
                asyncio.get_running_loop().create_task(release_arrives())
                await asyncio.sleep(0)                              # real code: await in the job-lock __aexit__
                await asyncio.sleep(0)
                return JobState.WAITING
            s.aio_start = aio_start
            t = asyncio.get_running_loop().create_task(s.aio_submit(job))
            await asyncio.sleep(0.6)
            out.update(done=t.done(), state=str(job.state), unsatisfied=job.unsatisfied, event=job._readyEvent.is_set(), starts=len(started))
            t.cancel()
        finally:
            base.experiment.CURRENT = saved
    try:
        asyncio.run(main())
    finally:
        shutil.rmtree(tmp, ignore_errors=True)
    failures = []
    if not out.get("done") and out.get("unsatisfied") == 0 and not out.get("event"):
        failures.append(dict(name="C06 lost READY after an aborted start: job asleep in WAITING with unsatisfied == 0", case="lost-ready:abort+release-during-unwind", **out))
    return dict(tool="cpython: real aio_submit/check/dependencychanged on an event loop, stub aio_start following the real abort path",
                bound="1 schedule (release delivered while aio_start unwinds)", cases=1, distinct=1, failures=failures)


def run_c12_type_key(tier, seed):
    """C12: a dict-typed parameter value that has a key "type" is decoded as a type marker."""
    from experimaestro.core.objects import ConfigInformation
    from experimaestro.core.context import SerializationContext
    import json
    from bounded.zoo_ws import DictHolder
    failures = []
    cfg = DictHolder(d={"type": "path", "value": "/x"})
    try:
        defs = json.loads(json.dumps(cfg.__xpm__.__get_objects__([], SerializationContext())))
        back = ConfigInformation.fromParameters(defs, as_instance=False, discard_id=True)
        if back.d != {"type": "path", "value": "/x"}:
            failures.append(dict(name='C12 dict value with a "type" key is decoded as a marker', case='type-key:{"type":"path","value":"/x"}', loaded=repr(back.d)))
    except Exception as e:  # noqa
        failures.append(dict(name='C12 dict value with a "type" key is decoded as a marker', case='type-key:{"type":"path","value":"/x"}', error=repr(e)))
    return dict(tool="cpython: __get_objects__ + json + fromParameters", bound="1 value", cases=1, distinct=1, failures=failures)


def run_c02_meta_in_default(tier, seed):
    """C02: the "value equals the declared default" test of HashComputer.update compares configurations with Config.__eq__,
    which looks at every value (Meta / Option / Path too): editing only a Meta value inside a sub-configuration that otherwise
    equals the parameter's default makes the parameter enter the signature."""
    from bounded.zoo_ws import FdLearner, FdOptimizer
    failures = []
    unset = FdLearner(epochs=3).__xpm__.identifier.all.hex()
    explicit = FdLearner(epochs=3, optimizer=FdOptimizer(lr=1e-3)).__xpm__.identifier.all.hex()
    meta = FdLearner(epochs=3, optimizer=FdOptimizer(lr=1e-3, verbose=True)).__xpm__.identifier.all.hex()
    if unset != explicit:
        failures.append(dict(name="C02 explicit default differs from unset", case="default-config:explicit", unset=unset, explicit=explicit))
    if meta != explicit:
        failures.append(dict(name="C02 a Meta edit inside a sub-configuration equal to the declared default changes the identifier",
                             case="default-config:meta-edit", explicit=explicit, with_meta_edit=meta))
    return dict(tool="cpython: real identifiers", bound="1 class pair, 3 configurations", cases=3, distinct=3, failures=failures)


def run_c01_default_generated(tier, seed):
    """C01: same root cause, seen through sealing: the default value has a generated field, the sealed value holds the generated
    path, Config.__eq__ then says "not the default" and the identifier changes when the configuration is sealed."""
    from bounded.zoo_ws import FdIndexer
    from experimaestro.xpmutils import DirectoryContext
    failures = []
    c = FdIndexer(name="wiki")
    before = c.__xpm__.identifier.all.hex()
    tmp = Path(tempfile.mkdtemp(prefix="verif-c01-"))
    try:
        c.__xpm__.seal(DirectoryContext(tmp))
        after = c.__xpm__.identifier.all.hex()
    finally:
        shutil.rmtree(tmp, ignore_errors=True)
    if before != after:
        failures.append(dict(name="C01 identifier changes when a configuration whose defaulted parameter holds a generated field is sealed",
                             case="default-config:generated-field:seal", before=before, after=after))
    return dict(tool="cpython: real identifiers before / after seal()", bound="1 configuration", cases=1, distinct=1, failures=failures)


def run_c15_stale_validated(tier, seed):
    """C15: a configuration validated during a *rejected* submission keeps its `_validated` flag (it is not sealed, so it can
    still be modified); made incomplete afterwards, it is not validated again by the next submission, which is accepted when
    the missing required parameter is one the identifier ignores."""
    from experimaestro import experiment
    from experimaestro.scheduler.workspace import RunMode
    from bounded.zoo_ws import VfA, VfB, VfBad, VfT1, VfT2
    failures = []
    tmp = Path(tempfile.mkdtemp(prefix="verif-c15-"))
    try:
        a = VfA(b=VfB(x=1))
        with experiment(tmp, "vf", port=-1, run_mode=RunMode.DRY_RUN):
            first = None
            try:
                VfT1(a=a, bad=VfBad()).submit()
                first = "accepted"
            except Exception as e:  # noqa
                first = type(e).__name__
            if first == "accepted":
                failures.append(dict(name="C15 a task with a missing required parameter is accepted at submission", case="stale-validated:first", what="bad.y missing"))
            a.b = VfB()          # a.b.x (required) is now missing
            try:
                VfT2(a=a).submit()
                failures.append(dict(name="C15 a configuration made incomplete after a rejected submission is accepted by the next submission",
                                     case="stale-validated:second", first_submission=first))
            except Exception:  # noqa
                pass
    finally:
        shutil.rmtree(tmp, ignore_errors=True)
    return dict(tool="cpython: two real submissions (DRY_RUN) of tasks sharing a configuration", bound="1 history", cases=2, distinct=2, failures=failures)
