"""Bounded stand-in for C01-C03 (configuration identifiers).

An executable transcription of the identifier specification (DESIGN 4.4; written from the documentation, it never calls
``HashComputer``) is compared with the real ``config.__xpm__.identifier`` / ``raw_identifier`` over enumerated
configuration graphs built from the class zoo ``bounded.zoo_ident``:

* ``run_c01``: spec == real on every node of every graph; every request order of the nodes of shared / cyclic graphs,
  unsealed and sealed; keyword / dict insertion order; three ``PYTHONHASHSEED`` values in sub-processes.
* ``run_c02``: every signature-neutral edit at every node and depth leaves the identifiers of the roots unchanged;
  classes extended with a parameter outside the signature.
* ``run_c03``: near pairs (one small structural edit apart) and all enumerated graphs pairwise: the real identifiers are
  equal iff the *structural* canonical signatures (never hashed, never flattened to bytes) are equal.

Readings of the specification fixed here because the documentation is silent (see ``NOTES``; each one is probed and the
outcome of the probe is reported in the result under ``notes``):
  N1 pre-tasks are collected over everything reachable from the configuration: parameter values (also ignored ones),
     pre-tasks of pre-tasks, init tasks and the producing tasks of task outputs (the walk *does* enter tasks);
  N2 a pre-task *object* counts once however often it is attached; two equal pre-task objects count twice.
"""
import copy
import hashlib
import itertools
import os
import random
import struct
import subprocess
import sys
import time
from enum import Enum
from pathlib import Path

# one mutant of the *specification* can be switched on to demonstrate that the comparison is sensitive
# (VERIF_IDENT_SPEC_MUTANT=nolen|nosort|noname|initorder|nocycle); never set in a normal run
_MUTANT = os.environ.get("VERIF_IDENT_SPEC_MUTANT", "")

_xp = None


def _x():
    """Lazy import of experimaestro and of the zoo"""
    global _xp
    if _xp is None:
        import warnings
        with warnings.catch_warnings():
            warnings.simplefilter("ignore")
            import experimaestro  # noqa: F401
        from experimaestro import Config
        from experimaestro.core.objects import ConfigWalkContext, setmeta
        from experimaestro.scheduler.workspace import RunMode
        from bounded import zoo_ident as zoo

        class Ctx(ConfigWalkContext):
            def __init__(self, p="/zoo/ctx"):
                super().__init__()
                self._p = Path(p)

            @property
            def path(self):
                return self._p

        class NS:
            pass
        _xp = NS()
        _xp.Config, _xp.setmeta, _xp.RunMode, _xp.zoo, _xp.Ctx = Config, setmeta, RunMode, zoo, Ctx
    return _xp


# ======================================================================================================================
# The specification
# ======================================================================================================================

def _H(b):
    return hashlib.sha256(b).digest()


def _pack_q(n):
    return struct.pack("!q", n)


def _pack_d(x):
    return struct.pack("!d", x)


def _is_cfg(v):
    return isinstance(v, _x().Config)


def _meta(v):
    return v.__xpm__.meta


def _dropped(v):
    """a configuration flagged meta (True) disappears from lists, dicts and parameters"""
    return _is_cfg(v) and bool(_meta(v))


def _strip_meta(v):
    if isinstance(v, list):
        return [e for e in v if not _dropped(e)]
    if isinstance(v, dict):
        return {k: e for k, e in v.items() if not _dropped(e)}
    return v


def _typeid(c):
    for k in type(c).__mro__:
        name = _x().zoo.TYPEID.get(k)
        if name is not None:
            return name
    raise AssertionError("class outside the zoo: %r" % type(c))


def _args(c):
    args = sorted(c.__xpmtype__.arguments.values(), key=lambda a: a.name)
    if _MUTANT == "nosort":
        args = list(c.__xpmtype__.arguments.values())
    return args


def _relevant(c):
    """[(name, value)] of the parameters of c that belong to its signature, sorted by name"""
    out = []
    for a in _args(c):
        value = getattr(c, a.name, None)
        if a.ignored and not (_is_cfg(value) and _meta(value) is False):
            continue
        if a.generator:
            continue
        if not a.constant:
            if not a.required and a.default is None and value is None:
                continue
            if a.default is not None and a.default == _strip_meta(value):
                continue
        if _dropped(value):
            continue
        out.append((a.name, value))
    return out


def _index(P, c):
    for i, p in enumerate(P):
        if p is c:
            return i
    return None


def _enc(v, P):
    if v is None:
        return b"\x06"
    if isinstance(v, float):
        return b"\x02" + _pack_d(v)
    if isinstance(v, int):
        return b"\x01" + _pack_q(v)
    if isinstance(v, str):
        return b"\x03" + v.encode("utf-8")
    if isinstance(v, list):
        xs = [e for e in v if not _dropped(e)]
        head = b"\x07" if _MUTANT == "nolen" else b"\x07" + _pack_d(len(xs))
        return head + b"".join(_enc(e, P) for e in xs)
    if isinstance(v, Enum):
        k = type(v)
        return b"\x0a" + f"{k.__module__}.{k.__qualname__}:{v.name}".encode("utf-8")
    if isinstance(v, dict):
        items = sorted(((k, e) for k, e in v.items() if not _dropped(e)), key=lambda kv: kv[0])
        return b"\x09" + b"".join(_enc(k, P) + _enc(e, P) for k, e in items)
    if _is_cfg(v):
        i = _index(P, v)
        if i is not None and _MUTANT != "nocycle":
            return b"\x00\x0b" + _pack_q(len(P) - i)
        if i is not None:
            return b"\x00\x0b"
        return b"\x00" + _H(_sig(v, P + [v]))
    raise AssertionError("value outside the specification: %r" % (v,))


def _sig(c, P):
    out = [b"\x00"]
    task = c.__xpm__.task
    if task is not None and task is not c:
        out.append(b"\x08" + _enc(task, P))
    out.append(_typeid(c).encode("utf-8"))
    for name, value in _relevant(c):
        if _MUTANT == "noname":
            out.append(b"\x05" + _enc(value, P))
        else:
            out.append(b"\x03" + name.encode("utf-8") + b"\x05" + _enc(value, P))
    return b"".join(out)


def spec_raw(c):
    return _H(_sig(c, [c]))


def _reach(v, seen, pre):
    """N1/N2: every configuration object reachable from v; pre = {id: pre-task object}"""
    if _is_cfg(v):
        if id(v) in seen:
            return
        seen[id(v)] = v
        info = v.__xpm__
        for a in v.__xpmtype__.arguments.values():
            if a.name in info.values:
                _reach(info.values[a.name], seen, pre)
        for p in info.pre_tasks:
            pre[id(p)] = p
            _reach(p, seen, pre)
        for t in info.init_tasks:
            _reach(t, seen, pre)
        if info.task is not None and info.task is not v:
            _reach(info.task, seen, pre)
    elif isinstance(v, (list, tuple, set)):
        for e in v:
            _reach(e, seen, pre)
    elif isinstance(v, dict):
        for e in v.values():
            _reach(e, seen, pre)


def spec_pre_tasks(c):
    pre = {}
    _reach(c, {}, pre)
    return list(pre.values())


def spec_full(c):
    stream = spec_raw(c) + b"".join(sorted(spec_raw(p) for p in spec_pre_tasks(c)))
    inits = list(c.__xpm__.init_tasks)
    if inits:
        ids = [spec_raw(t) for t in inits]
        if _MUTANT == "initorder":
            ids.sort()
        stream += b"\x0c" + b"".join(ids)
    return _H(stream)


# --- structural canonical signature (C03): same relevance rules, nothing hashed, nothing concatenated

def _canon(v, P):
    if v is None:
        return ("none",)
    if isinstance(v, float):
        return ("float", _pack_d(v))
    if isinstance(v, int):
        return ("int", int(v))
    if isinstance(v, str):
        return ("str", v)
    if isinstance(v, list):
        return ("list", tuple(_canon(e, P) for e in v if not _dropped(e)))
    if isinstance(v, Enum):
        return ("enum", type(v).__module__, type(v).__qualname__, v.name)
    if isinstance(v, dict):
        return ("dict", tuple(sorted((_canon(k, P), _canon(e, P)) for k, e in v.items() if not _dropped(e))))
    if _is_cfg(v):
        i = _index(P, v)
        if i is not None:
            return ("cycle", len(P) - i)
        return _canon_sig(v, P + [v])
    raise AssertionError(v)


def _canon_sig(c, P):
    task = c.__xpm__.task
    t = _canon(task, P) if (task is not None and task is not c) else None
    return ("cfg", _typeid(c), t, tuple((n, _canon(v, P)) for n, v in _relevant(c)))


def canon_full(c):
    pres = sorted((_canon_sig(p, [p]) for p in spec_pre_tasks(c)), key=repr)
    return (_canon_sig(c, [c]), tuple(pres), tuple(_canon_sig(t, [t]) for t in c.__xpm__.init_tasks))


def real_full(c):
    return c.__xpm__.identifier.all


def real_raw(c):
    return c.__xpm__.raw_identifier.all


# ======================================================================================================================
# Graph descriptions (pure data, so that the same graph can be rebuilt, edited and mutated)
# ======================================================================================================================

class G:
    """Description of one configuration: class, constructor keywords, attributes assigned after construction (late,
    used for cycles), meta flag, tags, pre-tasks, label (for sharing), submission (dry run) with init tasks"""
    __slots__ = ("cls", "kw", "late", "meta", "tags", "pre", "label", "submit", "init")

    def __init__(self, cls, kw=None, late=None, meta=None, tags=(), pre=(), label=None, submit=False, init=()):
        self.cls, self.kw, self.late, self.meta = cls, dict(kw or {}), dict(late or {}), meta
        self.tags, self.pre, self.label, self.submit, self.init = tuple(tags), tuple(pre), label, submit, tuple(init)

    def but(self, **ch):
        d = {k: getattr(self, k) for k in self.__slots__}
        d.update(ch)
        return G(**d)

    def __repr__(self):
        parts = [f"{k}={v!r}" for k, v in self.kw.items()] + [f"{k}:={v!r}" for k, v in self.late.items()]
        s = f"{self.cls.__name__}({', '.join(parts)})"
        if self.label:
            s = f"{self.label}@{s}"
        if self.meta is not None:
            s += f"[meta={self.meta}]"
        if self.tags:
            s += f"[tags={dict(self.tags)}]"
        if self.pre:
            s += f"[pre={list(self.pre)}]"
        if self.submit:
            s += f".submit({list(self.init) if self.init else ''})"
        return s


class R:
    """Reference to a labelled configuration"""

    def __init__(self, label):
        self.label = label

    def __repr__(self):
        return f"@{self.label}"


def _build(d, env):
    x = _x()
    if isinstance(d, G):
        if d.label is not None and d.label in env["objs"]:
            return env["objs"][d.label]
        obj = d.cls(**{k: _build(v, env) for k, v in d.kw.items()})
        env["all"].append(obj)
        if d.label is not None:
            env["objs"][d.label] = obj
        if d.late:
            env["late"].append((obj, d.late))
        if d.meta is not None:
            x.setmeta(obj, d.meta)
        for k, v in d.tags:
            obj.tag(k, v)
        if d.pre:
            obj.add_pretasks(*[_build(p, env) for p in d.pre])
        if d.submit:
            out = obj.submit(run_mode=x.RunMode.DRY_RUN, init_tasks=[_build(t, env) for t in d.init])
            if out is not obj:
                env["all"].append(out)
            if d.label is not None:
                env["objs"][d.label] = out
            return out
        return obj
    if isinstance(d, R):
        if d.label not in env["objs"]:
            return _build(env["defs"][d.label], env)
        return env["objs"][d.label]
    if isinstance(d, list):
        return [_build(e, env) for e in d]
    if isinstance(d, dict):
        return {k: _build(e, env) for k, e in d.items()}
    return d


class _FastInspect:
    """``Config.__init__`` records the creation site for error messages with ``inspect.stack()``, which costs ~5 ms per
    configuration (it resolves the source file of every frame).  While graphs are built, the name ``inspect`` seen by
    ``experimaestro.core.objects`` is replaced by this proxy, which answers the same two questions from the frame object
    directly; everything else is forwarded.  The recorded text is identical; nothing that enters an identifier is touched."""

    class _Info:
        def __init__(self, frame):
            self.filename, self.lineno = frame.f_code.co_filename, frame.f_lineno

    def __init__(self, real):
        self._real = real

    def __getattr__(self, name):
        return getattr(self._real, name)

    def stack(self, context=1):
        f = sys._getframe(1)
        return [(f,), (f.f_back,)]

    def getframeinfo(self, frame, context=1):
        return _FastInspect._Info(frame)


def build(roots):
    """Build a fresh graph from a list of root descriptions -> (root objects, every configuration built)"""
    import logging
    import experimaestro.core.objects as xo
    real, log = xo.inspect, logging.getLogger("xpm")
    level = log.level
    log.setLevel(logging.CRITICAL + 1)          # a refused graph is reported by the exception, not on stderr
    if not isinstance(real, _FastInspect) and not os.environ.get("VERIF_IDENT_SLOW_INSPECT"):
        xo.inspect = _FastInspect(real)
    try:
        return _build_all(roots)
    finally:
        xo.inspect = real
        log.setLevel(level)


def _build_all(roots):
    env = dict(objs={}, late=[], all=[], defs={v.label: v for _, v in _walk(roots) if isinstance(v, G) and v.label is not None})
    objs = [_build(d, env) for d in roots]
    i = 0
    while i < len(env["late"]):
        obj, late = env["late"][i]
        for k, v in late.items():
            setattr(obj, k, _build(v, env))
        i += 1
    return objs, env["all"]


def _children(v):
    if isinstance(v, G):
        for k, e in v.kw.items():
            yield ("kw", k), e
        for k, e in v.late.items():
            yield ("late", k), e
        for i, e in enumerate(v.pre):
            yield ("pre", i), e
        for i, e in enumerate(v.init):
            yield ("init", i), e
    elif isinstance(v, list):
        for i, e in enumerate(v):
            yield ("i", i), e
    elif isinstance(v, dict):
        for k, e in v.items():
            yield ("k", k), e


def _walk(v, path=()):
    yield path, v
    for step, e in _children(v):
        yield from _walk(e, path + (step,))


def _put(v, path, new):
    if not path:
        return new
    (kind, key), rest = path[0], path[1:]
    if kind in ("kw", "late"):
        d = dict(getattr(v, kind))
        d[key] = _put(d[key], rest, new)
        return v.but(**{kind: d})
    if kind in ("pre", "init"):
        seq = list(getattr(v, kind))
        seq[key] = _put(seq[key], rest, new)
        return v.but(**{kind: tuple(seq)})
    if kind == "i":
        seq = list(v)
        seq[key] = _put(seq[key], rest, new)
        return seq
    d = dict(v)
    d[key] = _put(d[key], rest, new)
    return d


def _reverse_orders(v):
    """Same graph, keywords and dict items given in the opposite order"""
    if isinstance(v, G):
        return v.but(kw={k: _reverse_orders(e) for k, e in reversed(list(v.kw.items()))},
                     late={k: _reverse_orders(e) for k, e in reversed(list(v.late.items()))},
                     pre=tuple(_reverse_orders(e) for e in v.pre), init=tuple(_reverse_orders(e) for e in v.init))
    if isinstance(v, list):
        return [_reverse_orders(e) for e in v]
    if isinstance(v, dict):
        return {k: _reverse_orders(e) for k, e in reversed(list(v.items()))}
    return v


# ======================================================================================================================
# Enumeration
# ======================================================================================================================

def _lists(alphabet, maxlen):
    for n in range(maxlen + 1):
        for t in itertools.product(alphabet, repeat=n):
            yield list(t)


def _sample(rnd, seq, n):
    seq = list(seq)
    return seq if len(seq) <= n else rnd.sample(seq, n)


def tree_cases(tier, rnd):
    """[(name, [root descriptions])]: acyclic graphs over the zoo"""
    z = _x().zoo
    quick = tier == "quick"
    out = []

    def add(*roots):
        out.append(list(roots))

    L = lambda x, **k: G(z.Leaf, dict(x=x, **k))                                      # noqa: E731

    # scalars
    dom = dict(i=[0, 1, -1, 2 ** 40], f=[0.5, 1.0, 0.0, -0.0, 1e300], s=["s", "", "é", "a b"], b=[False, True],
               o=[None, 0, 3], os=[None, "", "s"])
    add(G(z.Scal))
    for k, vs in dom.items():
        for v in vs:
            add(G(z.Scal, {k: v}))
    prod = [dict(zip(dom, t)) for t in itertools.product(*dom.values())]
    for kw in _sample(rnd, prod, 40 if quick else 400):
        add(G(z.Scal, kw))
    for x, y in itertools.product([0, 1, 2], repeat=2):
        add(G(z.Pair, dict(x=x, y=y)))
        add(G(z.Pair2, dict(x=x, y=y)))
    for x in (0, 1, 2):
        add(L(x))
        for y in (1, 2, 3):
            add(L(x, y=y))
    for v in [1, 1.0, "1", True, False, 0, 0.0, -0.0, "", "a", "1.0", 2, 2.0, [1], [1.0], ["1"], [], [1, 2], [2, 1], [1.0, 2]]:
        add(G(z.AnyP, dict(v=v)))

    # lists
    for xs in _lists([1, 2], 3):
        add(G(z.Lst, dict(xs=xs)))
    for xs, ys in itertools.product([[], [1], [1, 2]], [[], [1], [2, 1]]):
        add(G(z.Lst, dict(xs=xs, ys=ys)))
    for xs in _lists(["a", "b", "ab", ""], 2):
        add(G(z.StrL, dict(xs=xs)))
    inner = list(_lists([1, 2], 2))
    for xss in _lists(inner, 2):
        add(G(z.LL, dict(xss=xss)))
    for xss in _sample(rnd, list(itertools.product(inner, repeat=3)), 40 if quick else 343):
        add(G(z.LL, dict(xss=list(xss))))
    add(G(z.LL, dict(xss=[[1], [2, 3]])), G(z.LL, dict(xss=[[1, 2], [3]])))

    # dicts
    keys = ["a", "b", "ab"]
    for n in range(len(keys) + 1):
        for ks in itertools.combinations(keys, n):
            for vs in itertools.product([1, 2], repeat=n):
                add(G(z.Dct, dict(d=dict(zip(ks, vs)))))
    for d, e in itertools.product([{}, {"a": 1}, {"b": 1}], [{}, {"a": 1}, {"a": 2, "b": 1}]):
        add(G(z.Dct, dict(d=d, e=e)))
    inner_d = [None, {}, {"a": 1}, {"b": 1}, {"a": 1, "b": 1}, {"a": 2}]
    for da, db in itertools.product(inner_d, repeat=2):
        add(G(z.DD, dict(dd={k: v for k, v in (("a", da), ("b", db)) if v is not None})))
    inner_l = [None, [], [1], [1, 2], [2, 1]]
    for la, lb in itertools.product(inner_l, repeat=2):
        add(G(z.DL, dict(dl={k: v for k, v in (("a", la), ("b", lb)) if v is not None})))
    for ld in _lists([{}, {"a": 1}, {"b": 1}, {"a": 1, "b": 2}], 2):
        add(G(z.LD, dict(ld=ld)))

    # enums
    for e in z.Color:
        for s in (None, z.Shade.RED, z.Shade.DARK):
            add(G(z.En, dict(e=e) if s is None else dict(e=e, s=s)))

    # nesting, meta flags on members
    U = object()
    leaves = [L(1), L(2), L(1, y=3)]
    opts = [U, L(1), L(3), L(1).but(meta=True), L(1).but(meta=False)]
    lsts = [U, [], [L(1)], [L(1), L(2)], [L(2), L(1)], [L(1), L(2).but(meta=True)], [L(2).but(meta=True)],
            [L(1).but(meta=False), L(2)], [L(1), L(1)]]
    dcts = [U, {}, {"a": L(1)}, {"b": L(1)}, {"a": L(1), "b": L(2)}, {"a": L(2), "b": L(1)},
            {"a": L(1), "b": L(2).but(meta=True)}, {"m": L(1).but(meta=True)}]
    holders = []
    for a, o, l, d in itertools.product(leaves, opts, lsts, dcts):
        kw = dict(a=a)
        for k, v in (("opt", o), ("lst", l), ("dct", d)):
            if v is not U:
                kw[k] = v
        holders.append(G(z.Holder, kw))
    some_holders = _sample(rnd, holders, 60 if quick else 500)
    for h in some_holders:
        add(h)
    shared = G(z.Leaf, dict(x=1), label="s")
    add(G(z.Holder, dict(a=shared, opt=R("s"), lst=[R("s"), R("s")], dct={"k": R("s")})))
    add(G(z.Holder, dict(a=L(1), opt=L(1), lst=[L(1), L(1)], dct={"k": L(1)})))
    for h in _sample(rnd, some_holders, 12 if quick else 60):
        add(G(z.Deep, dict(h=h)))
        add(G(z.Deep, dict(h=h, hs=[h, G(z.Holder, dict(a=L(5)))], dh={"p": [L(1), L(2)], "q": []}, k=1)))
        add(G(z.Deep, dict(h=G(z.Holder, dict(a=L(5))), hs=[h], dh={"p": [L(2), L(1).but(meta=True)]})))

    # parameters outside the signature
    N = lambda x, **k: G(z.Neutral, dict(x=x, **k))                                  # noqa: E731
    for x in (1, 2):
        add(N(x))
        add(N(x, d=7))
        add(N(x, d=8, dl=[2, 1], dd={"k": 2}, o=1, oc=L(1)))
        add(N(x, m=4, ms="m", opt="p", p=Path("/a/b"), mp=Path("/c"), mc=L(1)))
        add(N(x, mc=L(1).but(meta=False)))
        add(N(x, mc=L(2).but(meta=False)))
        add(N(x, sub=N(3), subs=[N(4), N(5, m=1)], subd={"a": N(6), "z": N(7).but(meta=True)}))
        add(N(x, sub=N(3, sub=N(4, mc=L(1).but(meta=False)))))

    # constants, class evolution, deprecation
    for cls in (z.Const1, z.Const2, z.Const1bis):
        for x in (0, 1):
            add(G(cls, dict(x=x)))
    add(G(z.ConstS))
    add(G(z.ConstS2))
    for cls in (z.EvoOld, z.EvoDefault, z.EvoNone, z.EvoMeta, z.EvoOption, z.EvoPath, z.EvoList, z.EvoDict):
        for a in (1, 2):
            add(G(cls, dict(a=a)))
            add(G(cls, dict(a=a, l=[1])))
        add(G(z.EvoHolder, dict(e=G(cls, dict(a=1)), es=[G(cls, dict(a=2)), G(z.EvoOld, dict(a=1, l=[2]))])))
    add(G(z.EvoDefault, dict(a=1, b=2)))
    add(G(z.EvoNone, dict(a=1, b=L(1))))
    add(G(z.EvoList, dict(a=1, b=[5])))
    add(G(z.EvoDict, dict(a=1, b={"q": 2})))
    for cls in (z.NewC, z.OldC, z.DerivedC):
        for x in (0, 1):
            add(G(cls, dict(x=x)))
            add(G(z.DepHolder, dict(c=G(cls, dict(x=x)))))

    # tasks: outputs, consumers, pre-tasks, init tasks
    lights = [G(z.Light), G(z.Light, dict(k=1)), G(z.Light2), G(z.Light2, dict(k=1))]
    prods = [G(z.Producer, dict(x=1), submit=True), G(z.Producer, dict(x=2), submit=True),
             G(z.Producer2, dict(x=1), submit=True), G(z.Producer, dict(x=1), submit=True, pre=[lights[1]]),
             G(z.Producer, dict(x=1), submit=True, init=[lights[0]])]
    plains = [G(z.Plain, submit=True), G(z.Plain, dict(x=1), submit=True), G(z.Plain, dict(x=1, leaf=L(1)), submit=True),
              G(z.Plain, dict(leaf=prods[0]), submit=True), G(z.Plain, dict(x=1), submit=True, pre=[lights[0]]),
              G(z.Plain, dict(x=1), submit=True, init=[lights[2]])]
    for p in prods + plains + lights:
        add(p)
    for p in prods + [L(1)]:
        add(G(z.Holder, dict(a=p)))
        add(G(z.Holder, dict(a=L(1), lst=[p, L(2)], dct={"k": p})))
        for sub in (False, True):
            add(G(z.Consumer, dict(a=p), submit=sub))
            add(G(z.Consumer, dict(a=L(1), h=G(z.Holder, dict(a=p))), submit=sub))
    for t in plains:
        for sub in (False, True):
            add(G(z.Consumer, dict(a=L(1), t=t), submit=sub))
    pres = [(), (lights[0],), (lights[1],), (lights[2],), (lights[0], lights[2]), (lights[2], lights[0]),
            (lights[0], lights[1]), (lights[0], lights[0]), (G(z.Light, dict(k=1), pre=[lights[2]]),)]
    for pre in pres:
        add(G(z.Holder, dict(a=L(1)), pre=pre))
        add(G(z.Holder, dict(a=L(1).but(pre=pre))))
        add(G(z.Holder, dict(a=L(1), lst=[L(2).but(pre=pre[:1])]), pre=pre[1:]))
        for sub in (False, True):
            add(G(z.Consumer, dict(a=L(1)), pre=pre, submit=sub))
            add(G(z.Consumer, dict(a=L(1).but(pre=pre)), submit=sub))
    shared_pre = G(z.Light, dict(k=1), label="sp")
    add(G(z.Holder, dict(a=L(1).but(pre=[shared_pre])), pre=[R("sp")]))
    inits = [(lights[0],), (lights[2],), (lights[0], lights[2]), (lights[2], lights[0]), (lights[0], lights[0]),
             (lights[0], lights[1], lights[2]), (lights[1], lights[0], lights[2]),
             (G(z.Light, dict(k=1), pre=[lights[2]]),), (G(z.Plain, dict(x=3)),)]
    for init in inits:
        add(G(z.Consumer, dict(a=L(1)), submit=True, init=init))
        add(G(z.Plain, dict(x=1), submit=True, init=init, pre=[lights[3]]))
        add(G(z.Consumer, dict(a=L(1), t=G(z.Plain, dict(x=1), submit=True, init=init)), submit=True))
    return [(repr(roots)[:200], roots) for roots in out]


def _node_graph(n, ks, nxt, alt, many=None, named=None):
    """n Node configurations n0..n{n-1}; nxt/alt: index or None per node; many: list of indices per node"""
    z = _x().zoo
    roots = []
    for i in range(n):
        late = {}
        if nxt[i] is not None:
            late["nxt"] = R(f"n{nxt[i]}")
        if alt[i] is not None:
            late["alt"] = R(f"n{alt[i]}")
        if many and many[i]:
            late["many"] = [R(f"n{j}") for j in many[i]]
        if named and named[i]:
            late["named"] = {k: R(f"n{j}") for k, j in named[i].items()}
        roots.append(G(z.Node, dict(k=ks[i]), late=late, label=f"n{i}"))
    return roots


def node_cases(tier, rnd):
    """[(name, [root descriptions])]: shared / cyclic graphs of Node configurations, every node is a root"""
    quick = tier == "quick"
    out = []

    def add(n, ks, nxt, alt, many=None, named=None):
        roots = _node_graph(n, ks, nxt, alt, many, named)
        out.append((f"nodes k={list(ks)} nxt={list(nxt)} alt={list(alt)} many={many} named={named}", roots))

    for n in (1, 2, 3):
        targets = [None] + list(range(n))
        kss = [tuple(range(1, n + 1)), (0,) * n]
        every = list(itertools.product(itertools.product(targets, repeat=n), itertools.product(targets, repeat=n)))
        only_nxt = [(nx, (None,) * n) for nx in itertools.product(targets, repeat=n)]
        if n < 3:
            chosen = every
        else:
            rest = [e for e in every if e[1] != (None,) * n]
            chosen = only_nxt + _sample(rnd, rest, 25 if quick else 700)
        for nx, al in chosen:
            for ks in kss:
                add(n, ks, nx, al)
    # the classical ones first in the list of 3-node graphs: a->b->c->a, with a chord, with lists and dicts
    extra = [
        (3, (1, 2, 3), (1, 2, 0), (None, None, None), None, None),
        (3, (1, 2, 3), (1, 2, 0), (None, None, 1), None, None),
        (3, (1, 2, 3), (1, 2, None), (None, None, None), [[], [], [0, 1]], None),
        (3, (1, 2, 3), (None, None, None), (None, None, None), [[1, 2], [2, 0], [0, 1]], None),
        (3, (0, 0, 0), (1, 2, 0), (None, None, None), [[0], [], []], [None, {"p": 0, "q": 2}, None]),
        (2, (1, 2), (None, None), (None, None), None, [{"x": 1, "y": 0}, {"x": 0}]),
    ]
    for e in extra:
        add(*e)
    n = 4
    targets = [None] + list(range(n))
    for _ in range(6 if quick else 60):
        nx = tuple(rnd.choice(targets) for _ in range(n))
        al = tuple(rnd.choice(targets) for _ in range(n))
        many = [[j for j in range(n) if rnd.random() < 0.2] for _ in range(n)]
        add(n, rnd.choice([(1, 2, 3, 4), (0, 0, 0, 0), (1, 1, 2, 2)]), nx, al, many)
    add(4, (1, 2, 3, 4), (1, 2, 3, 0), (None, None, None, None))
    return out


# ======================================================================================================================
# helpers for results
# ======================================================================================================================

class _Report:
    def __init__(self):
        self.cases, self.failures, self.distinct, self.notes, self._seen = 0, [], set(), [], set()

    def fail(self, name, case, **details):
        key = (name, str(case))
        if key in self._seen or len(self.failures) >= 2000:
            return
        self._seen.add(key)
        self.failures.append(dict(name=name, case=str(case)[:240], **{k: str(v)[:300] for k, v in details.items()}))

    def guard(self, prefix, case, fn, *args):
        """Run one case; an exception of the code under test is a failure of the case, not of the harness"""
        try:
            return fn(*args)
        except Exception as e:  # noqa
            self.fail(prefix + " identifier computation or graph construction raises", case, error=repr(e)[:200])
            return None

    def result(self, tool, bound):
        # at most 6 failures, as many different kinds as possible (round robin over the names, first occurrence first)
        by_name = {}
        for f in self.failures:
            by_name.setdefault(f["name"], []).append(f)
        chosen, k = [], 0
        while len(chosen) < 6 and any(len(v) > k for v in by_name.values()):
            for v in by_name.values():
                if len(v) > k and len(chosen) < 6:
                    chosen.append(v[k])
            k += 1
        r = dict(tool=tool, bound=bound, cases=self.cases, distinct=len(self.distinct), failures=chosen)
        if len(self.failures) > len(chosen):
            self.notes.append("%d failing comparisons of %d kinds in total" % (len(self.failures), len(by_name)))
        if self.notes:
            r["notes"] = self.notes
        return r


def _hex(b):
    return b.hex()[:16]


def _check_spec(rep, name, objs, what="C01 identifier differs from the specification"):
    """spec == real for the raw and the full identifier of every object"""
    for i, c in enumerate(objs):
        rr, rf = real_raw(c), real_full(c)
        sr, sf = spec_raw(c), spec_full(c)
        rep.cases += 2
        rep.distinct.add(sf)
        if rr != sr:
            rep.fail(what + " (raw)", name, node=i, config=repr(c), real=_hex(rr), spec=_hex(sr))
        if rf != sf:
            rep.fail(what + " (full)", name, node=i, config=repr(c), real=_hex(rf), spec=_hex(sf))
        got = str(c.__xpmtype__.identifier)
        if got != _typeid(c):
            rep.fail("C01 type identifier name differs from the declared one", name, node=i, got=got, want=_typeid(c))


def _probe_notes():
    """Which reading does the code follow where the documentation is silent?  (informational)"""
    z = _x().zoo
    notes = []
    D = dict(submit=True)
    c1, _ = build([G(z.Consumer, dict(a=G(z.Producer, dict(x=1), **D)))])
    c2, _ = build([G(z.Consumer, dict(a=G(z.Producer, dict(x=1), pre=[G(z.Light, dict(k=1))], **D)))])
    crosses = real_full(c1[0]) != real_full(c2[0])
    notes.append("N1 pre-tasks of the task that produced an embedded task output %s the full identifier of the consumer "
                 "(the collecting walk %s tasks; raw identifiers are equal: %s)"
                 % ("change" if crosses else "do not change", "enters" if crosses else "does not enter",
                    real_raw(c1[0]) == real_raw(c2[0])))
    sp = G(z.Light, dict(k=1), label="sp")
    h1, _ = build([G(z.Holder, dict(a=G(z.Leaf, dict(x=1), pre=[sp])), pre=[R("sp")])])
    h2, _ = build([G(z.Holder, dict(a=G(z.Leaf, dict(x=1), pre=[G(z.Light, dict(k=1))])), pre=[G(z.Light, dict(k=1))])])
    h3, _ = build([G(z.Holder, dict(a=G(z.Leaf, dict(x=1))), pre=[G(z.Light, dict(k=1))])])
    notes.append("N2 the same pre-task object attached at two places counts once (%s); two equal pre-task objects count "
                 "twice (%s): the full identifier depends on object sharing among pre-tasks, not only on their content"
                 % (real_full(h1[0]) == real_full(h3[0]), real_full(h2[0]) != real_full(h3[0])))
    m1, _ = build([G(z.Holder, dict(a=G(z.Leaf, dict(x=1)), lst=[G(z.Leaf, dict(x=2), meta=True, pre=[G(z.Light)])]))])
    m2, _ = build([G(z.Holder, dict(a=G(z.Leaf, dict(x=1))))])
    notes.append("N3 a pre-task attached to a meta-flagged list member %s the full identifier of the holder"
                 % ("changes" if real_full(m1[0]) != real_full(m2[0]) else "does not change"))
    return notes


# ======================================================================================================================
# C01
# ======================================================================================================================

def _orders(rep, name, roots, max_perms, rnd):
    """Identifiers of every node, requested in every order, on fresh graphs, unsealed and sealed"""
    x = _x()
    objs, _ = build(roots)
    want = [(spec_raw(c), spec_full(c)) for c in objs]
    n = len(objs)
    perms = list(itertools.permutations(range(n)))
    if len(perms) > max_perms:
        perms = [perms[0], perms[-1]] + rnd.sample(perms[1:-1], max_perms - 2)
    for perm in perms:
        for mode in ("unsealed", "sealed-first", "sealed-each", "sealed-all"):
            objs, _ = build(roots)
            if mode == "sealed-first":
                objs[perm[0]].__xpm__.seal(x.Ctx())
            elif mode == "sealed-all":
                for c in objs:
                    c.__xpm__.seal(x.Ctx())
            for rnk, i in enumerate(perm):
                c = objs[i]
                if mode == "sealed-each":
                    c.__xpm__.seal(x.Ctx())
                # alternate which of the two identifiers is asked first; ask twice (second answer may come from the cache)
                if (rnk + i) % 2:
                    got = [(real_raw(c), real_full(c)) for _ in range(2)]
                else:
                    got = [tuple(reversed((real_full(c), real_raw(c)))) for _ in range(2)]
                rep.cases += 2
                for g in got:
                    if g != want[i]:
                        rep.fail("C01 identifier depends on the order in which identifiers are requested",
                                 f"{name} order={list(perm)} {mode}", node=i, real_raw=_hex(g[0]), spec_raw=_hex(want[i][0]),
                                 real_full=_hex(g[1]), spec_full=_hex(want[i][1]))
    for w in want:
        rep.distinct.add(w[1])


def _fixed_cases():
    """Seed-independent list of graphs for the PYTHONHASHSEED comparison"""
    rnd = random.Random(20260930)
    trees = tree_cases("quick", rnd)
    nodes = node_cases("quick", rnd)
    step_t, step_n = max(1, len(trees) // 120), max(1, len(nodes) // 40)
    return trees[::step_t] + nodes[::step_n]


def _print_fixed():
    """Entry point of the sub-process: one line per root"""
    for name, roots in _fixed_cases():
        objs, _ = build(roots)
        for i, c in enumerate(objs):
            print(i, real_full(c).hex(), real_raw(c).hex())                           # noqa: T201


def _hashseeds(rep):
    here = os.path.dirname(os.path.dirname(os.path.abspath(__file__)))
    extra = [here] + [p for p in sys.path if p.endswith("/src") and os.path.isdir(os.path.join(p, "experimaestro"))]
    pp = os.pathsep.join(extra + [p for p in os.environ.get("PYTHONPATH", "").split(os.pathsep) if p])
    code = "import bounded.identifiers as b; b._print_fixed()"
    want = []
    for name, roots in _fixed_cases():
        objs, _ = build(roots)
        for i, c in enumerate(objs):
            want.append(f"{i} {spec_full(c).hex()} {spec_raw(c).hex()}")
    procs = []
    for s in (0, 1, 2):
        env = dict(os.environ, PYTHONHASHSEED=str(s), PYTHONPATH=pp, PYTHONWARNINGS="ignore")
        env.pop("VERIF_IDENT_SPEC_MUTANT", None)
        procs.append((s, subprocess.Popen([sys.executable, "-c", code], env=env, stdout=subprocess.PIPE,
                                          stderr=subprocess.PIPE, text=True)))
    for s, p in procs:
        try:
            so, se = p.communicate(timeout=120)
        except subprocess.TimeoutExpired:
            p.kill()
            rep.fail("C01 sub-process timed out", f"PYTHONHASHSEED={s}")
            continue
        lines = so.strip().splitlines()
        if p.returncode != 0 or len(lines) != len(want):
            rep.fail("C01 sub-process failed", f"PYTHONHASHSEED={s}", returncode=p.returncode, lines=len(lines),
                     expected=len(want), stderr=se[-300:])
            continue
        for k, (a, b) in enumerate(zip(lines, want)):
            rep.cases += 1
            if a != b:
                rep.fail("C01 identifier differs in another process / under another PYTHONHASHSEED",
                         f"PYTHONHASHSEED={s} line={k}", got=a[:40], want=b[:40])
    return len(want)


def _case_content(rep, name, roots):
    objs, every = build(roots)
    _check_spec(rep, name, every)
    # history: the identifiers were requested, now the content changes; the answer must follow the content
    for c in reversed(every):
        if c.__xpm__._sealed or c.__xpm__.task is not None:
            continue
        pname = next((k for k in ("x", "k", "i", "a") if isinstance(c.__xpm__.values.get(k), int)), None)
        if pname is None:
            continue
        setattr(c, pname, c.__xpm__.values[pname] + 10)
        _check_spec(rep, name + f" after {pname} += 10 on {_typeid(c)}", every,
                    what="C01 identifier does not follow an edit made after it was requested")
        break
    for c in objs:
        if not c.__xpm__._sealed:
            c.__xpm__.seal(_x().Ctx())
    _check_spec(rep, name + " sealed", objs, what="C01 identifier of a sealed configuration differs from the specification")


def _case_kw_order(rep, name, roots):
    a, _ = build(roots)
    b, _ = build([_reverse_orders(r) for r in roots])
    for i, (ca, cb) in enumerate(zip(a, b)):
        rep.cases += 1
        if real_full(ca) != real_full(cb) or real_raw(ca) != real_raw(cb):
            rep.fail("C01 identifier depends on keyword or dict insertion order", name, node=i,
                     a=_hex(real_full(ca)), b=_hex(real_full(cb)))


def run_c01(tier, seed):
    rnd = random.Random(seed)
    rep = _Report()
    quick = tier == "quick"
    t0 = time.time()
    trees = tree_cases(tier, rnd)
    nodes = node_cases(tier, rnd)
    # (a) spec == real on every configuration of every graph: unsealed, after an edit (no stale answer), sealed
    for name, roots in trees + nodes:
        rep.guard("C01", name, _case_content, rep, name, roots)
    # (c) keyword / dict insertion order
    for name, roots in trees:
        rep.guard("C01", name, _case_kw_order, rep, name, roots)
    # (b) request orders on shared / cyclic graphs (and on a few trees with several configurations)
    budget = (13 if quick else 110)
    for k, (name, roots) in enumerate(nodes):
        if time.time() - t0 > budget:
            rep.notes.append(f"request-order enumeration stopped after {k} of {len(nodes)} node graphs (time budget)")
            break
        rep.guard("C01", name, _orders, rep, name, roots, 24 if not quick else 6, rnd)
    z = _x().zoo
    multi = [[G(z.Leaf, dict(x=1), label="s"), G(z.Holder, dict(a=R("s"), lst=[R("s")]), label="h"),
              G(z.Deep, dict(h=R("h"), hs=[R("h")], dh={"p": [R("s")]}))],
             [G(z.Producer, dict(x=1), submit=True, label="o"), G(z.Holder, dict(a=R("o")), label="h"),
              G(z.Consumer, dict(a=R("o"), h=R("h")), pre=[G(z.Light)])],
             [G(z.Neutral, dict(x=1, sub=G(z.Neutral, dict(x=2), label="b"), subs=[R("b")]), label="a"), R("b")]]
    for roots in multi:
        rep.guard("C01", repr(roots)[:200], _orders, rep, repr(roots)[:200], roots, 6, rnd)
    # (d) other processes, other string-hash seeds
    nfixed = _hashseeds(rep)
    rep.notes.extend(_probe_notes())
    return rep.result(
        tool="cpython: real identifier vs executable transcription of the identifier specification (DESIGN 4.4)",
        bound="%d acyclic graphs over a zoo of %d classes (scalars, lists, lists of lists, dicts <= 2 levels, enums, optional,"
              " Meta/Option/Path/generated/constant parameters, meta-flagged members, task outputs, pre-tasks, init tasks,"
              " deprecated class), %d shared/cyclic graphs of <= 4 nodes; every node; all request orders (<= 24 per graph)"
              " x {unsealed, sealed first, sealed one by one, all sealed}; reversed keyword/dict order; %d identifiers"
              " recomputed in 3 sub-processes with PYTHONHASHSEED 0,1,2"
              % (len(trees), len(_x().zoo.TYPEID), len(nodes), nfixed))


# ======================================================================================================================
# C02
# ======================================================================================================================

def _arguments(cls):
    return cls.__getxpmtype__().arguments


def _neutral_edits(g):
    """[(name, edited G)]: edits of one node that the documentation places outside the signature"""
    z = _x().zoo
    out = [("tag", g.but(tags=g.tags + (("k", 1),))), ("two tags", g.but(tags=g.tags + (("k", 2), ("other", "v"))))]
    given = set(g.kw) | set(g.late)
    for a in _arguments(g.cls).values():
        if a.generator or a.constant:
            continue
        if a.name not in given:
            if a.default is not None and _holds_cfg(a.default):
                continue                                                             # see _dc_defaults (equal copy given as a description)
            if a.default is not None:
                out.append((f"explicit default {a.name}", g.but(kw=dict(g.kw, **{a.name: copy.deepcopy(a.default)}))))
            elif not a.required:
                out.append((f"explicit None {a.name}", g.but(kw=dict(g.kw, **{a.name: None}))))
    L9 = G(z.Leaf, dict(x=9), meta=True)
    if g.cls is z.Neutral:
        M9 = G(z.Neutral, dict(x=9), meta=True)
        for k, vs in dict(m=[5, 6], ms=["zz", None], opt=["other"], p=[Path("/other/p"), "/as/str"],
                          mp=[Path("/x"), None], mc=[G(z.Leaf, dict(x=5)), G(z.Leaf, dict(x=6), meta=True), None]).items():
            if isinstance(g.kw.get(k), G) and g.kw[k].meta is False:
                continue                                                             # forced into the signature: not neutral
            for v in vs:
                out.append((f"ignored parameter {k}={v!r}", g.but(kw=dict(g.kw, **{k: v}))))
        if "oc" not in given:
            out.append(("meta-flagged optional oc", g.but(kw=dict(g.kw, oc=L9))))
        if "sub" not in given:
            out.append(("meta-flagged optional sub", g.but(kw=dict(g.kw, sub=M9))))
        subs, subd = g.kw.get("subs", []), g.kw.get("subd", {})
        out.append(("meta-flagged member appended to subs", g.but(kw=dict(g.kw, subs=list(subs) + [M9]))))
        out.append(("meta-flagged member prepended to subs", g.but(kw=dict(g.kw, subs=[M9] + list(subs)))))
        out.append(("meta-flagged value added to subd", g.but(kw=dict(g.kw, subd=dict(subd, **{"0m": M9})))))
    if g.cls is z.Holder:
        if "opt" not in given:
            out.append(("meta-flagged optional opt", g.but(kw=dict(g.kw, opt=L9))))
        lst, dct = g.kw.get("lst", []), g.kw.get("dct", {})
        out.append(("meta-flagged member appended to lst", g.but(kw=dict(g.kw, lst=list(lst) + [L9]))))
        out.append(("meta-flagged member prepended to lst", g.but(kw=dict(g.kw, lst=[L9] + list(lst)))))
        if len(lst) >= 2:
            out.append(("meta-flagged member inserted in lst", g.but(kw=dict(g.kw, lst=[lst[0], L9] + list(lst[1:])))))
        out.append(("meta-flagged value added to dct", g.but(kw=dict(g.kw, dct=dict(dct, **{"0m": L9})))))
        out.append(("meta-flagged value added to dct (last key)", g.but(kw=dict(g.kw, dct=dict(dct, **{"zm": L9})))))
    if g.cls is z.Deep:
        dh = g.kw.get("dh", {})
        out.append(("meta-flagged member in a list inside a dict", g.but(kw=dict(g.kw, dh={**{k: list(v) + [L9] for k, v in dh.items()}}))))
    if g.cls is z.Node:
        N9 = G(z.Node, dict(k=9), meta=True)
        many = g.late.get("many", g.kw.get("many", []))
        named = g.late.get("named", g.kw.get("named", {}))
        late = {k: v for k, v in g.late.items() if k not in ("many", "named")}
        kw = {k: v for k, v in g.kw.items() if k not in ("many", "named")}
        out.append(("meta-flagged member appended to many", g.but(kw=kw, late=dict(late, many=list(many) + [N9], named=named))))
        out.append(("meta-flagged value added to named", g.but(kw=kw, late=dict(late, many=many, named=dict(named, **{"0m": N9})))))
        if "alt" not in given:
            out.append(("meta-flagged optional alt", g.but(kw=dict(g.kw, alt=N9))))
    # an explicit meta=False on a configuration that sits in a signature position changes nothing
    for k, v in g.kw.items():
        if isinstance(v, G) and v.meta is None and not _arguments(g.cls)[k].ignored:
            out.append((f"meta=False on the value of {k}", g.but(kw=dict(g.kw, **{k: v.but(meta=False)}))))
    # class evolution: same type identifier, one more parameter outside the signature
    if g.cls is z.EvoOld:
        for cls, extra in ((z.EvoDefault, [{}, dict(b=1)]), (z.EvoNone, [{}, dict(b=None), dict(b=L9)]),
                           (z.EvoMeta, [{}, dict(b=3), dict(b=8)]), (z.EvoOption, [{}, dict(b="z"), dict(b="y")]),
                           (z.EvoPath, [{}]), (z.EvoList, [{}, dict(b=[4])]), (z.EvoDict, [{}, dict(b={"q": 1})])):
            for e in extra:
                out.append((f"class extended: {cls.__name__} {e!r}", g.but(cls=cls, kw=dict(g.kw, **e))))
    if g.cls is z.Const1:
        out.append(("same constant in another class", g.but(cls=z.Const1bis)))
    # defaults that are configurations carrying non-default Meta / Option / Path values: unset == an equal copy of the default
    # given explicitly (equal in every field, ignored ones included: a copy that differs in a Meta value only is the recorded
    # finding "Meta edit inside a sub-configuration equal to the declared default" and is deliberately NOT generated here)
    dc = _dc_defaults()
    if g.cls in dc:
        pname, desc = dc[g.cls]
        if pname not in given:
            out.append((f"explicit copy of the default configuration {pname}", g.but(kw=dict(g.kw, **{pname: desc}))))
    if g.cls is z.DcOld:
        for cls, (pname, desc) in dc.items():
            out.append((f"class extended by a parameter whose default is a configuration: {cls.__name__} unset", g.but(cls=cls)))
            out.append((f"class extended by a parameter whose default is a configuration: {cls.__name__} explicit copy",
                        g.but(cls=cls, kw=dict(g.kw, **{pname: desc}))))
    return out


def _holds_cfg(v):
    if isinstance(v, (list, tuple)):
        return any(_holds_cfg(e) for e in v)
    if isinstance(v, dict):
        return any(_holds_cfg(e) for e in v.values())
    return _is_cfg(v)


def _dc_defaults():
    """{class: (parameter, description of a configuration equal to the declared default in every field)}; written by hand
    from the class definitions of the zoo (``clone`` is code under test and is not used to make the copy)"""
    z = _x().zoo
    O = lambda **k: G(z.DcOpt, k)                                                    # noqa: E731
    return {
        z.DcControl: ("optimizer", O(lr=0.5)),
        z.DcMeta: ("optimizer", O(lr=1e-3, verbose=True)),
        z.DcOption: ("optimizer", O(lr=0.5, note="other")),
        z.DcPath: ("optimizer", O(cache=Path("/zoo/cache"))),
        z.DcReqPath: ("optimizer", G(z.DcOptP, dict(p=Path("/zoo/p")))),
        z.DcList: ("opts", [O(verbose=True), O(lr=0.5)]),
        z.DcDict: ("named", {"a": O(note="n"), "b": O(lr=0.5)}),
        z.DcNested: ("wrap", G(z.DcWrap, dict(k=1, opt=O(lr=0.5, verbose=True, cache=Path("/zoo/c"))))),
    }


def default_config_cases():
    """[(name, [root descriptions])]: classes with a parameter whose default is a configuration (or a list / dict of
    configurations) in which a Meta / Option / Path argument has a non-default value; alone, nested in a holder (depth 1, list
    members), parameter unset / given as an equal copy / given another value"""
    z = _x().zoo
    dc = _dc_defaults()
    out = []
    for e in (1, 3):
        out.append([G(z.DcOld, dict(epochs=e))])
        for cls, (pname, desc) in dc.items():
            out.append([G(cls, dict(epochs=e))])
    for cls, (pname, desc) in dc.items():
        out.append([G(cls, {"epochs": 1, pname: desc})])
        out.append([G(z.DcHolder, dict(e=G(cls, dict(epochs=1)), es=[G(z.DcOld, dict(epochs=2)), G(cls, dict(epochs=3))]))])
    out.append([G(z.DcMeta, dict(epochs=1, optimizer=G(z.DcOpt, dict(lr=0.7))))])
    out.append([G(z.DcNested, dict(epochs=1, wrap=G(z.DcWrap, dict(k=2))))])
    out.append([G(z.DcWrap), G(z.DcWrap, dict(k=1))])
    out.append([G(z.DcHolder, dict(e=G(z.DcOld, dict(epochs=1)), es=[G(cls, dict(epochs=1)) for cls in dc]))])
    return [(repr(roots)[:200], roots) for roots in out]


def _case_neutral(rep, name, roots):
    objs, _ = build(roots)
    base = [(real_raw(c), real_full(c)) for c in objs]
    for path, node in _walk(roots):
        if not isinstance(node, G):
            continue
        for ename, new in _neutral_edits(node):
            case = f"{name} @{'/'.join(str(s[1]) for s in path)} {ename}"
            kind = ename.split("=")[0]
            try:
                eobjs, _ = build(_put(roots, path, new))
                got = [(real_raw(c), real_full(c)) for c in eobjs]
            except Exception as e:  # noqa
                rep.fail("C02 edited graph cannot be built or identified: " + kind, case, error=repr(e))
                continue
            rep.distinct.add(kind + node.cls.__name__ + str(len(path)))
            for i, c in enumerate(eobjs):
                rep.cases += 1
                if got[i] != base[i]:
                    rep.fail("C02 signature-neutral edit changes the identifier: " + kind, case, root=i,
                             before=_hex(base[i][1]), after=_hex(got[i][1]), raw_before=_hex(base[i][0]), raw_after=_hex(got[i][0]))
                elif got[i] != (spec_raw(c), spec_full(c)):
                    rep.fail("C02 identifier after a neutral edit differs from the specification", case, root=i)


def run_c02(tier, seed):
    rnd = random.Random(seed)
    rep = _Report()
    quick = tier == "quick"
    x = _x()
    z = x.zoo
    t0 = time.time()
    cases = tree_cases(tier, rnd) + node_cases(tier, rnd)
    order = list(range(len(cases)))
    rnd.shuffle(order)
    budget = 19 if quick else 150
    done = 0
    for idx in order:
        if time.time() - t0 > budget:
            break
        done += 1
        name, roots = cases[idx]
        rep.guard("C02", name, _case_neutral, rep, name, roots)
    if done < len(cases):
        rep.notes.append(f"{done} of {len(cases)} graphs edited within the time budget (random order, seed {seed})")
    # defaults that are configurations with non-default Meta / Option / Path values (always run, outside the time budget)
    dcs = default_config_cases()
    dc = _dc_defaults()
    for cls, (pname, desc) in dc.items():
        def equal_copy(cls=cls, pname=pname, desc=desc):
            (v,), _ = build([desc])
            rep.cases += 1
            if not (_arguments(cls)[pname].default == v):
                rep.fail("C02 hand-written copy of a default configuration is not equal to the declared default (harness)",
                         f"{cls.__name__}.{pname}", copy=repr(v))
        rep.guard("C02", f"{cls.__name__}.{pname}", equal_copy)
    for name, roots in dcs:
        rep.guard("C02", name, _case_neutral, rep, name, roots)

        def against_spec(name=name, roots=roots):
            objs, every = build(roots)
            _check_spec(rep, name, every, what="C02 identifier of a configuration with a defaulted configuration parameter differs from the specification")
        rep.guard("C02", name, against_spec)
    # generated paths: sealing with different contexts gives different paths and the same identifier
    def generated(xv):
        ids = set()
        for ctxpath in (None, "/ctx/one", "/ctx/two"):
            (c,), _ = build([G(z.Neutral, dict(x=xv, sub=G(z.Neutral, dict(x=3))))])
            if ctxpath:
                c.__xpm__.seal(x.Ctx(ctxpath))
                if not str(c.gp).startswith(ctxpath) or c.gp == c.sub.gp:
                    rep.fail("C02 generated path not generated under the context (harness)", f"Neutral(x={xv}) {ctxpath}", got=str(c.gp))
            ids.add((real_raw(c), real_full(c)))
            rep.cases += 1
        if len(ids) != 1:
            rep.fail("C02 generated path parameter changes the identifier", f"Neutral(x={xv}) sealed with two contexts")
    for xv in (1, 2):
        rep.guard("C02", f"generated path Neutral(x={xv})", generated, xv)
    return rep.result(
        tool="cpython: real identifier before / after every signature-neutral edit (and vs the specification)",
        bound="%d graphs (the C01 enumeration), every node at every depth x {tags, parameter explicitly at its default, optional"
              " explicitly None, Meta/Option/Path parameter changed, meta-flagged configuration as optional value / list member"
              " (front, middle, back) / dict value, meta=False in a signature position, class extended by a defaulted / None /"
              " Meta / Option / generated-path / list / dict parameter}; generated paths under 2 contexts; %d graphs over %d classes"
              " whose defaulted parameter is a configuration (or list / dict of configurations, or nested) holding non-default"
              " Meta / Option / Path values: unset == equal copy given explicitly, old class == class extended by that parameter"
              % (done, len(dcs), len(dc)))


# ======================================================================================================================
# C03
# ======================================================================================================================

def _other_values(v):
    """Values one small step away from the scalar v"""
    if isinstance(v, bool):
        return [not v]
    if isinstance(v, int):
        return [v + 1, -v] if v else [1]
    if isinstance(v, float):
        return [v + 1.0, -v]
    if isinstance(v, str):
        return [v + "x", v[:-1]] if v else ["x"]
    if isinstance(v, Enum):
        return [m for m in type(v) if m is not v][:2]
    return []


def _mutations(roots):
    """[(kind, mutated roots)]: one small structural edit at every position of the graph"""
    z = _x().zoo
    swaps = {z.Pair: z.Pair2, z.Pair2: z.Pair, z.Const1: z.Const2, z.Const2: z.Const1, z.ConstS: z.ConstS2,
             z.Producer: z.Producer2, z.Producer2: z.Producer, z.NewC: z.DerivedC, z.DerivedC: z.NewC, z.OldC: z.DerivedC,
             z.Light: z.Light2, z.Light2: z.Light}
    siblings = {z.Pair: [("x", "y")], z.Pair2: [("x", "y")], z.Leaf: [("x", "y")], z.Scal: [("i", "o"), ("s", "os")],
                z.Lst: [("xs", "ys")], z.Dct: [("d", "e")], z.Holder: [("a", "opt")], z.Node: [("nxt", "alt")],
                z.Neutral: [("x", "d"), ("x", "o"), ("sub", "mc")]}
    extra_pre = G(z.Light, dict(k=7))
    for path, v in _walk(roots):
        if not path:
            continue
        put = lambda new: _put(roots, path, new)                                    # noqa: E731
        if isinstance(v, G):
            if v.cls in swaps:
                yield "class changed", put(v.but(cls=swaps[v.cls]))
            for a, b in siblings.get(v.cls, []):
                for where in ("kw", "late"):
                    d = getattr(v, where)
                    if a in d or b in d:
                        nd = {k: e for k, e in d.items() if k not in (a, b)}
                        if b in d:
                            nd[a] = d[b]
                        if a in d:
                            nd[b] = d[a]
                        try_ = v.but(**{where: nd})
                        yield f"values of {a} and {b} exchanged", put(try_)
            yield "pre-task added", put(v.but(pre=v.pre + (extra_pre,)))
            if v.pre:
                yield "pre-task removed", put(v.but(pre=v.pre[1:]))
            if len(v.init) >= 2:
                yield "init tasks reordered", put(v.but(init=(v.init[1], v.init[0]) + v.init[2:]))
            if v.init:
                yield "init task removed", put(v.but(init=v.init[1:]))
                yield "init task duplicated", put(v.but(init=v.init + v.init[-1:]))
            elif v.submit:
                yield "init task added", put(v.but(init=(extra_pre,)))
            if v.meta is not None:
                yield "meta flag removed", put(v.but(meta=None))
            elif path[-1][0] in ("i", "k"):
                yield "member flagged meta", put(v.but(meta=True))
        elif isinstance(v, list):
            for i in range(len(v) - 1):
                yield "adjacent list elements exchanged", put(v[:i] + [v[i + 1], v[i]] + v[i + 2:])
                if isinstance(v[i], list) and isinstance(v[i + 1], list):
                    if v[i]:
                        yield "element moved to the next list", put(v[:i] + [v[i][:-1], [v[i][-1]] + v[i + 1]] + v[i + 2:])
                    if v[i + 1]:
                        yield "element moved to the previous list", put(v[:i] + [v[i] + [v[i + 1][0]], v[i + 1][1:]] + v[i + 2:])
            if v:
                yield "last list element removed", put(v[:-1])
                yield "last list element duplicated", put(v + [v[-1]])
                yield "first list element removed", put(v[1:])
        elif isinstance(v, dict):
            keys = list(v)
            for k in keys:
                yield "dict key renamed", put({(kk + "_" if kk == k else kk): e for kk, e in v.items()})
                yield "dict entry removed", put({kk: e for kk, e in v.items() if kk != k})
            for a, b in zip(keys, keys[1:]):
                yield "dict values exchanged", put({**v, a: v[b], b: v[a]})
                if isinstance(v[a], dict) and isinstance(v[b], dict) and v[a]:
                    k0 = list(v[a])[-1]
                    if k0 not in v[b]:
                        yield "entry moved to the neighbouring dict", put(
                            {**v, a: {k: e for k, e in v[a].items() if k != k0}, b: {**v[b], k0: v[a][k0]}})
        elif isinstance(v, R):
            pass
        elif v is not None and not isinstance(v, Path):
            for o in _other_values(v):
                yield "scalar changed", put(o)
            owner_any = len(path) >= 1 and path[-1] == ("kw", "v")
            if owner_any and isinstance(v, (int, float, str)) and not isinstance(v, bool):
                for conv in (int, float, str):
                    try:
                        o = conv(v)
                    except ValueError:
                        continue
                    if type(o) is not type(v):
                        yield "same value, other scalar type", put(o)


def _ids(roots):
    objs, _ = build(roots)
    return [(real_full(c), real_raw(c), canon_full(c), spec_full(c)) for c in objs]


def run_c03(tier, seed):
    rnd = random.Random(seed)
    rep = _Report()
    quick = tier == "quick"
    z = _x().zoo
    t0 = time.time()
    cases = tree_cases(tier, rnd) + node_cases(tier, rnd)
    by_id, by_canon = {}, {}                                                         # full identifier <-> canonical signature
    raw_by_id, raw_by_canon = {}, {}

    def record(name, i, full, raw, canon):
        """Global pairwise comparison: identifier -> signature must be a function, and signature -> identifier too"""
        rep.distinct.add(full)
        for ident, sig, m_id, m_sig, what in ((full, canon, by_id, by_canon, "full"), (raw, canon[0], raw_by_id, raw_by_canon, "raw")):
            rep.cases += 1
            if m_id.setdefault(ident, (sig, name, i))[0] != sig:
                rep.fail(f"C03 two configurations with different signatures share an identifier ({what})",
                         f"{name} #{i} ~ {m_id[ident][1]} #{m_id[ident][2]}", identifier=_hex(ident))
            if m_sig.setdefault(sig, (ident, name, i))[0] != ident:
                rep.fail(f"C03 two configurations with the same signature have different identifiers ({what})",
                         f"{name} #{i} ~ {m_sig[sig][1]} #{m_sig[sig][2]}", a=_hex(ident), b=_hex(m_sig[sig][0]))

    # explicit near pairs named in the property
    L = lambda x, **k: G(z.Leaf, dict(x=x, **k))                                      # noqa: E731
    P = lambda cls, x, **k: G(cls, dict(x=x), submit=True, **k)                       # noqa: E731
    li, l2 = G(z.Light), G(z.Light2)
    named = [
        ("element moved between neighbouring lists", G(z.LL, dict(xss=[[1], [2, 3]])), G(z.LL, dict(xss=[[1, 2], [3]]))),
        ("element moved between neighbouring lists", G(z.LL, dict(xss=[[], [1]])), G(z.LL, dict(xss=[[1], []]))),
        ("empty list added", G(z.LL, dict(xss=[[1]])), G(z.LL, dict(xss=[[1], []]))),
        ("list order", G(z.Lst, dict(xs=[1, 2])), G(z.Lst, dict(xs=[2, 1]))),
        ("list length", G(z.Lst, dict(xs=[1])), G(z.Lst, dict(xs=[1, 1]))),
        ("string list split", G(z.StrL, dict(xs=["ab"])), G(z.StrL, dict(xs=["a", "b"]))),
        ("string list split", G(z.StrL, dict(xs=["ab", ""])), G(z.StrL, dict(xs=["a", "b"]))),
        ("dict key renamed", G(z.Dct, dict(d={"a": 1})), G(z.Dct, dict(d={"b": 1}))),
        ("dict key moved to sibling", G(z.Dct, dict(d={"a": 1}, e={"b": 1})), G(z.Dct, dict(d={"a": 1, "b": 1}))),
        ("value moved to a sibling parameter", G(z.Pair, dict(x=1, y=2)), G(z.Pair, dict(x=2, y=1))),
        ("value moved to a sibling parameter", G(z.Scal, dict(i=3)), G(z.Scal, dict(o=3))),
        ("value moved to a sibling parameter", G(z.Lst, dict(xs=[1], ys=[])), G(z.Lst, dict(xs=[], ys=[1]))),
        ("enum member", G(z.En, dict(e=z.Color.RED)), G(z.En, dict(e=z.Color.GREEN))),
        ("enum class", G(z.En, dict(e=z.Color.RED, s=z.Shade.RED)), G(z.En, dict(e=z.Color.RED))),
        ("int vs float", G(z.AnyP, dict(v=1)), G(z.AnyP, dict(v=1.0))),
        ("int vs str", G(z.AnyP, dict(v=1)), G(z.AnyP, dict(v="1"))),
        ("float vs str", G(z.AnyP, dict(v=1.0)), G(z.AnyP, dict(v="1.0"))),
        ("0.0 vs -0.0", G(z.AnyP, dict(v=0.0)), G(z.AnyP, dict(v=-0.0))),
        ("list of int vs list of float", G(z.AnyP, dict(v=[1])), G(z.AnyP, dict(v=[1.0]))),
        ("constant value", G(z.Const1), G(z.Const2)),
        ("constant value", G(z.ConstS), G(z.ConstS2)),
        ("type identifier", G(z.Pair, dict(x=1, y=2)), G(z.Pair2, dict(x=1, y=2))),
        ("nested dict regrouped", G(z.DD, dict(dd={"a": {"a": 1}, "b": {}})), G(z.DD, dict(dd={"a": {}, "b": {"a": 1}}))),
        ("nested dict regrouped", G(z.DD, dict(dd={"a": {"a": 1, "b": 1}})), G(z.DD, dict(dd={"a": {"a": 1}, "b": {"b": 1}}))),
        ("dict of lists regrouped", G(z.DL, dict(dl={"a": [1], "b": [2]})), G(z.DL, dict(dl={"a": [1, 2], "b": []}))),
        ("list of dicts regrouped", G(z.LD, dict(ld=[{"a": 1}, {"b": 2}])), G(z.LD, dict(ld=[{"a": 1, "b": 2}, {}]))),
        ("task output of another task", G(z.Holder, dict(a=P(z.Producer, 1))), G(z.Holder, dict(a=P(z.Producer2, 1)))),
        ("task output of another task", G(z.Holder, dict(a=P(z.Producer, 1))), G(z.Holder, dict(a=P(z.Producer, 2)))),
        ("task output vs plain configuration", G(z.Holder, dict(a=P(z.Producer, 1))), G(z.Holder, dict(a=L(1)))),
        ("task output of another task (consumer)", G(z.Consumer, dict(a=P(z.Producer, 1)), submit=True),
         G(z.Consumer, dict(a=P(z.Producer2, 1)), submit=True)),
        ("set of pre-tasks", G(z.Consumer, dict(a=L(1)), submit=True), G(z.Consumer, dict(a=L(1)), submit=True, pre=[li])),
        ("set of pre-tasks", G(z.Consumer, dict(a=L(1)), submit=True, pre=[li]), G(z.Consumer, dict(a=L(1)), submit=True, pre=[l2])),
        ("set of pre-tasks", G(z.Consumer, dict(a=L(1)), submit=True, pre=[li]), G(z.Consumer, dict(a=L(1)), submit=True, pre=[li, l2])),
        ("set of pre-tasks (nested)", G(z.Consumer, dict(a=L(1).but(pre=[li])), submit=True), G(z.Consumer, dict(a=L(1).but(pre=[l2])), submit=True)),
        ("order of init tasks", G(z.Consumer, dict(a=L(1)), submit=True, init=[li, l2]), G(z.Consumer, dict(a=L(1)), submit=True, init=[l2, li])),
        ("init task vs pre-task", G(z.Consumer, dict(a=L(1)), submit=True, init=[li]), G(z.Consumer, dict(a=L(1)), submit=True, pre=[li])),
        ("init tasks vs none", G(z.Consumer, dict(a=L(1)), submit=True, init=[li]), G(z.Consumer, dict(a=L(1)), submit=True)),
        ("forced-in meta parameter", G(z.Neutral, dict(x=1, mc=L(1).but(meta=False))), G(z.Neutral, dict(x=1, mc=L(2).but(meta=False)))),
    ]
    def named_pair(what, a, b):
        (ia,), (ib,) = _ids([a]), _ids([b])
        rep.cases += 1
        record(f"{what}: {a!r}", 0, ia[0], ia[1], ia[2])
        record(f"{what}: {b!r}", 0, ib[0], ib[1], ib[2])
        if ia[2] == ib[2]:
            rep.fail("C03 near pair is not distinguished by the canonical signature (harness)", f"{what}: {a!r} | {b!r}")
        elif ia[0] == ib[0] or (ia[2][0] != ib[2][0] and ia[1] == ib[1]):
            rep.fail("C03 near pair collides: " + what, f"{a!r} | {b!r}", identifier=_hex(ia[0]))
    for what, a, b in named:
        rep.guard("C03", f"{what}: {a!r} | {b!r}", named_pair, what, a, b)
    # cycles of length 1, 2, 3 with identical node content; the same cycle entered at another node
    def cycles():
        cyc = [_node_graph(n, (0,) * n, tuple((i + 1) % n for i in range(n)), (None,) * n) for n in (1, 2, 3)]
        cyc_ids = [_ids(r)[0] for r in cyc]
        for (i, a), (j, b) in itertools.combinations(enumerate(cyc_ids), 2):
            rep.cases += 1
            if a[0] == b[0]:
                rep.fail("C03 near pair collides: cycle length", f"cycle of {i + 1} vs cycle of {j + 1} identical nodes")
    rep.guard("C03", "cycles of 1, 2, 3 identical nodes", cycles)

    # every enumerated graph, and every graph one small edit away from it
    order = list(range(len(cases)))
    rnd.shuffle(order)
    budget = 19 if quick else 150
    done = 0
    def one(name, roots, with_mutations):
        base = _ids(roots)
        for i, b in enumerate(base):
            record(name, i, b[0], b[1], b[2])
            if b[0] != b[3]:
                rep.fail("C03 identifier differs from the specification", name, root=i)
        if not with_mutations:
            return
        muts = list(_mutations(roots))
        if len(muts) > nmut:
            muts = rnd.sample(muts, nmut)
        for kind, mroots in muts:
            case = f"{name} -> {kind}: {mroots!r}"[:240]
            try:
                mids = _ids(mroots)
            except Exception:  # noqa  (the edit produced a graph the library refuses: not a pair)
                continue
            for i, (b, m) in enumerate(zip(base, mids)):
                rep.cases += 1
                record(case, i, m[0], m[1], m[2])
                if (b[2] != m[2]) != (b[0] != m[0]):
                    how = "are equal although the signatures differ" if b[2] != m[2] else "differ although the signatures are equal"
                    rep.fail(f"C03 near pair: identifiers {how}: {kind}", case, root=i, a=_hex(b[0]), b=_hex(m[0]))
                if (b[2][0] != m[2][0]) != (b[1] != m[1]):
                    rep.fail("C03 near pair (raw identifier): %s" % kind, case, root=i, a=_hex(b[1]), b=_hex(m[1]))

    nmut = 40 if quick else 120
    for idx in order:
        name, roots = cases[idx]
        within = time.time() - t0 <= budget                                          # the cheap pairwise part covers all graphs
        done += within
        rep.guard("C03", name, one, name, roots, within)
    if done < len(cases):
        rep.notes.append(f"near pairs generated for {done} of {len(cases)} graphs within the time budget (random order, seed {seed});"
                         " the pairwise comparison covers all graphs")
    rep.distinct = set(by_canon)
    return rep.result(
        tool="cpython: real identifiers vs structural canonical signatures (equal iff equal), pairwise over all graphs",
        bound="%d enumerated graphs (the C01 enumeration) and, for %d of them, <= %d graphs one edit away each (element moved "
              "between neighbouring lists / dicts, elements exchanged, length changed, key renamed, values of sibling parameters "
              "exchanged, scalar / enum member / scalar type / class / constant changed, meta flag toggled, pre-task added or "
              "removed, init tasks reordered / removed / duplicated); %d named near pairs; text without control characters, "
              "dicts <= 2 levels; all %d signatures compared pairwise through two hash maps"
              % (len(cases), done, 40 if quick else 120, len(named) + 3, len(by_canon)))
