"""Bounded stand-in for C19 (cleaning commands): the real `jobs clean` (cli.jobs.process) and `orphans --clean`
on materialised workspaces, against the selection stated in the property."""
import contextlib
import io
import itertools
import json
import shutil
import tempfile
from pathlib import Path
from types import SimpleNamespace

JOBS = [("pkg.ta", "aaaa"), ("pkg.ta", "bbbb"), ("pkg.tb", "cccc")]
STATES = ["done", "failed", "running", "none"]


def _mk(ws: Path, states, links, baks):
    (ws / "jobs").mkdir(parents=True)
    for (task, h), st in zip(JOBS, states):
        d = ws / "jobs" / task / h
        d.mkdir(parents=True)
        name = task.rsplit(".", 1)[-1]
        (d / "params.json").write_text(json.dumps({"tags": {"model": "m" + h[0]}}))
        if st == "done": (d / f"{name}.done").touch()
        if st == "failed": (d / f"{name}.failed").write_text("1")
        if st == "running": (d / f"{name}.pid").write_text("{}")
    for xp, idx in links.items():
        for sub, sel in (("jobs", idx), ("jobs.bak", baks.get(xp, []))):
            for i in sel:
                task, h = JOBS[i]
                l = ws / "xp" / xp / sub / task / h
                l.parent.mkdir(parents=True, exist_ok=True)
                l.symlink_to(ws / "jobs" / task / h)
        (ws / "xp" / xp / "jobs").mkdir(parents=True, exist_ok=True)


def _present(ws):
    return {i for i, (task, h) in enumerate(JOBS) if (ws / "jobs" / task / h).is_dir()}


def run_cleaning(tier, seed):
    from experimaestro.cli.jobs import process
    from experimaestro.cli import orphans
    failures, cases, distinct = [], 0, set()
    root = Path(tempfile.mkdtemp(prefix="verif-clean-"))
    state_sets = list(itertools.product(STATES, repeat=3))
    if tier == "quick":
        state_sets = state_sets[::5]
    link_sets = [({"e1": [0], "e2": [1, 2]}, {}), ({"e1": [0, 1], "e2": [1]}, {}), ({"e1": [2], "e2": []}, {"e2": [0]}), ({"e1": [], "e2": []}, {})]
    try:
        for states in state_sets:
            for links, baks in link_sets:
                for experiment, flt, perform in itertools.product(["", "e1"], ["", 'model = "ma"'], [True, False]):
                    cases += 1
                    ws = root / f"w{cases}"
                    _mk(ws, states, links, baks)
                    before = _present(ws)
                    with contextlib.redirect_stdout(io.StringIO()):
                        try:
                            process(SimpleNamespace(path=ws), experiment=experiment, filter=flt, clean=True, perform=perform)
                        except Exception as e:  # noqa
                            failures.append(dict(name="C19 jobs clean raised", case=f"clean-raise {states} {links} xp={experiment} f={flt}", error=repr(e)))
                            shutil.rmtree(ws); continue
                    after = _present(ws)
                    unfinished_xp = any((ws / "xp" / x / "jobs.bak").is_dir() for x in links)
                    want = set()
                    for i in before:
                        finished = states[i] in ("done", "failed")
                        in_xp = (not experiment) or (i in links.get(experiment, []))
                        sel = (not flt) or JOBS[i][1][0] == "a"
                        if finished and in_xp and sel and perform:
                            want.add(i)
                    removed = before - after
                    distinct.add((states, experiment, flt, perform, tuple(sorted(want))))
                    if removed != want:
                        failures.append(dict(name="C19 jobs clean removed a wrong set of jobs", case=f"clean states={states} links={links} baks={baks} xp={experiment!r} filter={flt!r} perform={perform}",
                                             removed=sorted(removed), expected=sorted(want)))
                    shutil.rmtree(ws)
                # orphans --clean
                for ignore_old in (False, True):
                    cases += 1
                    ws = root / f"o{cases}"
                    _mk(ws, states, links, baks)
                    before = _present(ws)
                    with contextlib.redirect_stdout(io.StringIO()):
                        try:
                            orphans.callback(path=ws, clean=True, size=False, show_all=False, ignore_old=ignore_old)
                        except Exception as e:  # noqa
                            failures.append(dict(name="C19 orphans raised", case=f"orphans-raise {states} {links}", error=repr(e)))
                            shutil.rmtree(ws); continue
                    after = _present(ws)
                    ref = set()
                    for x, idx in links.items(): ref |= set(idx)
                    if not ignore_old:
                        for x, idx in baks.items(): ref |= set(idx)
                    want = before - ref
                    if before - after != want:
                        failures.append(dict(name="C19 orphans --clean removed a wrong set of job directories", case=f"orphans links={links} baks={baks} ignore_old={ignore_old}",
                                             removed=sorted(before - after), expected=sorted(want)))
                    shutil.rmtree(ws)
    finally:
        shutil.rmtree(root, ignore_errors=True)
    return dict(tool="cpython: real cli.jobs.process / cli.orphans on temp workspaces", bound="3 jobs x 4 states, 4 index layouts, options", cases=cases,
                distinct=len(distinct), failures=failures[:6])
