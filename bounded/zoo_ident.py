"""Class zoo for the bounded identifier checks (C01-C03).  Lives in an importable module (configs defined in a
``__main__`` script are re-executed by the loader).  Every class has an explicit ``__xpmid__`` so that the specification
side can take the type name from the table ``TYPEID`` below rather than from the code under test."""
from enum import Enum
from pathlib import Path
from typing import Dict, List, Optional

from experimaestro.core.types import Any as AnyValue
from experimaestro import (Config, Constant, LightweightTask, Meta, Option, Param, PathGenerator, Task, deprecate, field)


class Color(Enum):
    RED = 0
    GREEN = 1
    BLUE = 2


class Shade(Enum):
    RED = 0
    DARK = 1


# --- scalars and containers

class Leaf(Config):
    __xpmid__ = "zoo.leaf"
    x: Param[int]
    y: Param[int] = 2


class Pair(Config):
    __xpmid__ = "zoo.pair"
    x: Param[int]
    y: Param[int]


class Pair2(Config):
    """Same parameters as Pair, another type identifier"""
    __xpmid__ = "zoo.pair2"
    x: Param[int]
    y: Param[int]


class Scal(Config):
    __xpmid__ = "zoo.scal"
    i: Param[int] = 0
    f: Param[float] = 0.5
    s: Param[str] = "s"
    b: Param[bool] = False
    o: Param[Optional[int]] = None
    os: Param[Optional[str]] = None


class AnyP(Config):
    """Untyped parameter: keeps int / float / str apart (no coercion)"""
    __xpmid__ = "zoo.anyp"
    v: Param[AnyValue]


class Lst(Config):
    __xpmid__ = "zoo.lst"
    xs: Param[List[int]]
    ys: Param[List[int]] = []


class StrL(Config):
    __xpmid__ = "zoo.strl"
    xs: Param[List[str]]


class LL(Config):
    __xpmid__ = "zoo.ll"
    xss: Param[List[List[int]]]


class Dct(Config):
    __xpmid__ = "zoo.dct"
    d: Param[Dict[str, int]]
    e: Param[Dict[str, int]] = {}


class DD(Config):
    __xpmid__ = "zoo.dd"
    dd: Param[Dict[str, Dict[str, int]]]


class DL(Config):
    __xpmid__ = "zoo.dl"
    dl: Param[Dict[str, List[int]]]


class LD(Config):
    __xpmid__ = "zoo.ld"
    ld: Param[List[Dict[str, int]]]


class En(Config):
    __xpmid__ = "zoo.en"
    e: Param[Color]
    s: Param[Optional[Shade]] = None


# --- nesting

class Holder(Config):
    __xpmid__ = "zoo.holder"
    a: Param[Leaf]
    opt: Param[Optional[Leaf]] = None
    lst: Param[List[Leaf]] = []
    dct: Param[Dict[str, Leaf]] = {}


class Deep(Config):
    __xpmid__ = "zoo.deep"
    h: Param[Holder]
    hs: Param[List[Holder]] = []
    dh: Param[Dict[str, List[Leaf]]] = {}
    k: Param[int] = 0


# --- parameters outside the signature

class Neutral(Config):
    __xpmid__ = "zoo.neutral"
    x: Param[int]
    d: Param[int] = 7
    dl: Param[List[int]] = [1, 2]
    dd: Param[Dict[str, int]] = {"k": 1}
    o: Param[Optional[int]] = None
    oc: Param[Optional[Leaf]] = None
    m: Meta[int] = 0
    ms: Meta[Optional[str]] = None
    opt: Option[str] = "o"
    p: Param[Path] = Path("/zoo/default")
    mp: Meta[Optional[Path]] = None
    gp: Meta[Path] = field(default_factory=PathGenerator("x"))
    mc: Meta[Optional[Leaf]] = None
    sub: Param[Optional["Neutral"]] = None
    subs: Param[List["Neutral"]] = []
    subd: Param[Dict[str, "Neutral"]] = {}


class Const1(Config):
    __xpmid__ = "zoo.const"
    version: Constant[int] = 1
    x: Param[int] = 0


class Const2(Config):
    __xpmid__ = "zoo.const"
    version: Constant[int] = 2
    x: Param[int] = 0


class Const1bis(Config):
    __xpmid__ = "zoo.const"
    version: Constant[int] = 1
    x: Param[int] = 0


class ConstS(Config):
    __xpmid__ = "zoo.consts"
    name: Constant[str] = "v1"


class ConstS2(Config):
    __xpmid__ = "zoo.consts"
    name: Constant[str] = "v2"


# --- class evolution: same type identifier, the "new" class has one more parameter outside the signature

class EvoBase(Config):
    __xpmid__ = "zoo.evobase"


class EvoOld(EvoBase):
    __xpmid__ = "zoo.evo"
    a: Param[int]
    l: Param[List[int]] = []


class EvoDefault(EvoBase):
    __xpmid__ = "zoo.evo"
    a: Param[int]
    l: Param[List[int]] = []
    b: Param[int] = 1


class EvoNone(EvoBase):
    __xpmid__ = "zoo.evo"
    a: Param[int]
    l: Param[List[int]] = []
    b: Param[Optional[Leaf]] = None


class EvoMeta(EvoBase):
    __xpmid__ = "zoo.evo"
    a: Param[int]
    l: Param[List[int]] = []
    b: Meta[int] = 3


class EvoOption(EvoBase):
    __xpmid__ = "zoo.evo"
    a: Param[int]
    l: Param[List[int]] = []
    b: Option[str] = "z"


class EvoPath(EvoBase):
    __xpmid__ = "zoo.evo"
    a: Param[int]
    l: Param[List[int]] = []
    path: Meta[Path] = field(default_factory=PathGenerator("path"))


class EvoList(EvoBase):
    __xpmid__ = "zoo.evo"
    a: Param[int]
    l: Param[List[int]] = []
    b: Param[List[int]] = [4]


class EvoDict(EvoBase):
    __xpmid__ = "zoo.evo"
    a: Param[int]
    l: Param[List[int]] = []
    b: Param[Dict[str, int]] = {"q": 1}


class EvoHolder(Config):
    __xpmid__ = "zoo.evoholder"
    e: Param[EvoBase]
    es: Param[List[EvoBase]] = []


# --- cyclic / shared graphs

class Node(Config):
    __xpmid__ = "zoo.node"
    k: Param[int] = 0
    nxt: Param[Optional["Node"]] = None
    alt: Param[Optional["Node"]] = None
    many: Param[List["Node"]] = []
    named: Param[Dict[str, "Node"]] = {}


# --- deprecation

class NewC(Config):
    __xpmid__ = "zoo.newc"
    x: Param[int] = 0


@deprecate
class OldC(NewC):
    __xpmid__ = "zoo.oldc"


class DerivedC(NewC):
    __xpmid__ = "zoo.derivedc"


class DepHolder(Config):
    __xpmid__ = "zoo.depholder"
    c: Param[NewC]


# --- tasks

class Producer(Task):
    __xpmid__ = "zoo.producer"
    x: Param[int]

    def task_outputs(self, dep):
        return dep(Leaf(x=1))


class Producer2(Task):
    __xpmid__ = "zoo.producer2"
    x: Param[int]

    def task_outputs(self, dep):
        return dep(Leaf(x=1))


class Plain(Task):
    """A task that is its own output"""
    __xpmid__ = "zoo.plain"
    x: Param[int] = 0
    leaf: Param[Optional[Leaf]] = None


class Consumer(Task):
    __xpmid__ = "zoo.consumer"
    a: Param[Leaf]
    h: Param[Optional[Holder]] = None
    t: Param[Optional[Plain]] = None


class Light(LightweightTask):
    __xpmid__ = "zoo.light"
    k: Param[int] = 0

    def execute(self):
        pass


class Light2(LightweightTask):
    __xpmid__ = "zoo.light2"
    k: Param[int] = 0

    def execute(self):
        pass


# --- defaults that are configurations carrying NON-default Meta / Option / Path values (C02: the default installed for an
# unset parameter must still be == the declared default, so that the parameter stays outside the signature)

class DcOpt(Config):
    __xpmid__ = "zoo.dcopt"
    lr: Param[float] = 1e-3
    verbose: Meta[bool] = False
    note: Option[str] = "o"
    cache: Meta[Optional[Path]] = None


class DcOptP(Config):
    """an ignored argument without a default (plain Param[Path])"""
    __xpmid__ = "zoo.dcoptp"
    lr: Param[float] = 1e-3
    p: Param[Path]


class DcWrap(Config):
    __xpmid__ = "zoo.dcwrap"
    k: Param[int] = 0
    opt: Param[DcOpt] = DcOpt(lr=1e-3)


class DcBase(Config):
    __xpmid__ = "zoo.dcbase"


class DcOld(DcBase):
    __xpmid__ = "zoo.dc"
    epochs: Param[int]


class DcControl(DcBase):
    """control: the default configuration has every ignored argument at its own default"""
    __xpmid__ = "zoo.dc"
    epochs: Param[int]
    optimizer: Param[DcOpt] = DcOpt(lr=0.5)


class DcMeta(DcBase):
    __xpmid__ = "zoo.dc"
    epochs: Param[int]
    optimizer: Param[DcOpt] = DcOpt(lr=1e-3, verbose=True)


class DcOption(DcBase):
    __xpmid__ = "zoo.dc"
    epochs: Param[int]
    optimizer: Param[DcOpt] = DcOpt(lr=0.5, note="other")


class DcPath(DcBase):
    __xpmid__ = "zoo.dc"
    epochs: Param[int]
    optimizer: Param[DcOpt] = DcOpt(cache=Path("/zoo/cache"))


class DcReqPath(DcBase):
    __xpmid__ = "zoo.dc"
    epochs: Param[int]
    optimizer: Param[DcOptP] = DcOptP(p=Path("/zoo/p"))


class DcList(DcBase):
    __xpmid__ = "zoo.dc"
    epochs: Param[int]
    opts: Param[List[DcOpt]] = [DcOpt(verbose=True), DcOpt(lr=0.5)]


class DcDict(DcBase):
    __xpmid__ = "zoo.dc"
    epochs: Param[int]
    named: Param[Dict[str, DcOpt]] = {"a": DcOpt(note="n"), "b": DcOpt(lr=0.5)}


class DcNested(DcBase):
    __xpmid__ = "zoo.dc"
    epochs: Param[int]
    wrap: Param[DcWrap] = DcWrap(k=1, opt=DcOpt(lr=0.5, verbose=True, cache=Path("/zoo/c")))


class DcHolder(Config):
    __xpmid__ = "zoo.dcholder"
    e: Param[DcBase]
    es: Param[List[DcBase]] = []


#: type name expected in the signature of an instance of each class (the replacement's name for a deprecated class)
TYPEID = {
    Leaf: "zoo.leaf", Pair: "zoo.pair", Pair2: "zoo.pair2", Scal: "zoo.scal", AnyP: "zoo.anyp", Lst: "zoo.lst",
    StrL: "zoo.strl", LL: "zoo.ll", Dct: "zoo.dct", DD: "zoo.dd", DL: "zoo.dl", LD: "zoo.ld", En: "zoo.en",
    Holder: "zoo.holder", Deep: "zoo.deep", Neutral: "zoo.neutral", Const1: "zoo.const", Const2: "zoo.const",
    Const1bis: "zoo.const", ConstS: "zoo.consts", ConstS2: "zoo.consts", EvoOld: "zoo.evo", EvoDefault: "zoo.evo",
    EvoNone: "zoo.evo", EvoMeta: "zoo.evo", EvoOption: "zoo.evo", EvoPath: "zoo.evo", EvoList: "zoo.evo",
    EvoDict: "zoo.evo", EvoHolder: "zoo.evoholder", EvoBase: "zoo.evobase", Node: "zoo.node", NewC: "zoo.newc", OldC: "zoo.newc",
    DerivedC: "zoo.derivedc", DepHolder: "zoo.depholder", Producer: "zoo.producer", Producer2: "zoo.producer2",
    Plain: "zoo.plain", Consumer: "zoo.consumer", Light: "zoo.light", Light2: "zoo.light2",
    DcOpt: "zoo.dcopt", DcOptP: "zoo.dcoptp", DcWrap: "zoo.dcwrap", DcBase: "zoo.dcbase", DcOld: "zoo.dc", DcControl: "zoo.dc",
    DcMeta: "zoo.dc", DcOption: "zoo.dc", DcPath: "zoo.dc", DcReqPath: "zoo.dc", DcList: "zoo.dc", DcDict: "zoo.dc",
    DcNested: "zoo.dc", DcHolder: "zoo.dcholder",
}
