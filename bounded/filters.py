"""Bounded stand-in for C19 (filters): createFilter(text) on the real parser against an evaluator written from the
documentation, over an enumerated expression grammar and all assignments of tags / state / name over a small domain."""
import itertools
import re
from pathlib import Path


class _Info:
    def __init__(self, tags, state, name):
        self.tags, self.state = tags, state
        self.path = Path("/ws/jobs") / name / "0123abcd"


def _atoms():
    vals = ["a", "b"]
    out = []
    for var in ("model", "mode", "@state", "@name"):
        dom = {"@state": ["DONE", "ERROR", "RUNNING"], "@name": ["pkg.task", "other"]}.get(var, vals)
        for v in dom[:2]:
            out.append((f'{var} = "{v}"', ("eq", var, v)))
        out.append((f'{var} in ["{dom[0]}", "{dom[1]}"]', ("in", var, dom[:2])))
        out.append((f'{var} not in ["{dom[0]}"]', ("notin", var, dom[:1])))
        out.append((f'{var} ~ "{dom[0][:1]}.*"', ("re", var, dom[0][:1] + ".*")))
    return out


def _exprs(depth):
    atoms = _atoms()
    yield from atoms
    if depth >= 2:
        for (ta, sa), (tb, sb) in itertools.product(atoms[::3], atoms[1::4]):
            for op in ("and", "or"):
                yield f"{ta} {op} {tb}", (op, sa, sb)
    # long chains (the fold over 4 and 5 terms)
    chain = [atoms[0], atoms[6], atoms[11], atoms[3], atoms[16]]
    for ops in (("and", "and", "and"), ("or", "or", "or"), ("and", "or", "and"), ("or", "and", "or", "and"), ("and", "and", "and", "and")):
        terms = chain[:len(ops) + 1]
        text, spec = terms[0]
        for op, (t, s_) in zip(ops, terms[1:]):
            text, spec = f"{text} {op} {t}", (op, spec, s_)
        yield text, spec
    if depth >= 3:
        few = atoms[::5]
        for (ta, sa), (tb, sb), (tc, sc) in itertools.product(few, few, few):
            yield f"{ta} and {tb} or {tc}", ("or", ("and", sa, sb), sc)      # left-associative fold (documented: boolean expression)


def _get(var, info):
    if var == "@state":
        return info.state.name if info.state else None
    if var == "@name":
        return info.path.parent.name
    return info.tags.get(var)


def _spec(s, info):
    k = s[0]
    if k == "eq": return _get(s[1], info) == s[2]
    if k == "in": return _get(s[1], info) in s[2]
    if k == "notin": return _get(s[1], info) not in s[2]
    if k == "re":
        v = _get(s[1], info)
        return bool(v) and re.match(s[2], v) is not None
    if k == "and": return _spec(s[1], info) and _spec(s[2], info)
    if k == "or": return _spec(s[1], info) or _spec(s[2], info)
    raise AssertionError(k)


def run_filters(tier, seed):
    from experimaestro.cli.filter import createFilter
    from experimaestro.scheduler import JobState
    failures, cases, distinct = [], 0, set()
    infos = []
    for model, mode in itertools.product(["a", "b", None], ["a", "c", None]):
        for state in (JobState.DONE, JobState.ERROR, JobState.RUNNING, None):
            for name in ("pkg.task", "zzz"):
                tags = {k: v for k, v in (("model", model), ("mode", mode)) if v is not None}
                infos.append(_Info(tags, state, name))
    for text, spec in _exprs(2 if tier == "quick" else 3):
        try:
            f = createFilter(text)
        except Exception as e:  # noqa
            failures.append(dict(name="C19 filter expression rejected by the parser", case=f"parse {text}", text=text, error=repr(e)))
            continue
        for info in infos:
            cases += 1
            try:
                got = bool(f(info))
            except Exception as e:  # noqa
                failures.append(dict(name="C19 filter raises", case=f"raise {text}", text=text, error=repr(e)))
                break
            want = bool(_spec(spec, info))
            distinct.add((text, want))
            if got != want:
                failures.append(dict(name="C19 filter disagrees with its documented meaning", case=f"eval {text}", text=text,
                                     tags=info.tags, state=str(info.state), name_=info.path.parent.name, got=got, want=want))
                break
    # tags that happen to be called like the special variables (without the '@'): they are ordinary tags
    extra = [('name = "bert"', ("eq", "name", "bert")), ('state = "final"', ("eq", "state", "final")), ('name in ["bert", "x"]', ("in", "name", ["bert", "x"])),
             ('name not in ["bert"]', ("notin", "name", ["bert"])), ('state = "final" and @state = "DONE"', ("and", ("eq", "state", "final"), ("eq", "@state", "DONE"))),
             ('name ~ "be.*"', ("re", "name", "be.*")), ('@name = "pkg.task" and name = "bert"', ("and", ("eq", "@name", "pkg.task"), ("eq", "name", "bert")))]
    infos2 = [_Info(tags, state, nm) for tags in ({"name": "bert"}, {"name": "pkg.task", "state": "final"}, {"state": "DONE"}, {})
              for state in (JobState.DONE, JobState.RUNNING, None) for nm in ("pkg.task", "bert")]
    for text, spec in extra:
        try:
            f = createFilter(text)
        except Exception as e:  # noqa
            failures.append(dict(name="C19 filter expression rejected by the parser", case=f"parse {text}", text=text, error=repr(e)))
            continue
        for info in infos2:
            cases += 1
            try:
                got = bool(f(info))
            except Exception as e:  # noqa
                failures.append(dict(name="C19 filter raises", case=f"raise {text}", text=text, error=repr(e)))
                break
            want = bool(_spec(spec, info))
            if got != want:
                failures.append(dict(name="C19 filter disagrees with its documented meaning", case=f"eval {text}", text=text,
                                     tags=info.tags, state=str(info.state), name_=info.path.parent.name, got=got, want=want))
                break
    return dict(tool="cpython: real pyparsing grammar + expression classes vs an evaluator written from the documentation",
                bound="expression depth <= %d, 2 tags x 3 values, 4 states, 2 names" % (2 if tier == "quick" else 3),
                cases=cases, distinct=len(distinct), failures=failures[:6])
