"""Small real-code checks added after the seeding rounds (bounded stand-ins, never counted as proved)."""


def run_c02_tagged_values(tier, seed):
    """C02: tagging a value (`x=tag(v)`, or `.tag(name, v)`) never changes the identifier - also when the tagged value needs the
    documented coercion of its parameter type (int for a float parameter, integral float for an int parameter)."""
    from experimaestro import tag
    from bounded.zoo_ws import TgCfg, TgOuter
    failures, cases = [], 0

    def ident(c):
        return c.__xpm__.identifier.all.hex()

    grid = [(1, 10), (1.0, 10), (1, 10.0), (0.5, 3), (2, 7.0)]
    for f, i in grid:
        plain = TgCfg(f=f, i=i)
        variants = {
            "tag(f)": lambda: TgCfg(f=tag(f), i=i),
            "tag(i)": lambda: TgCfg(f=f, i=tag(i)),
            "tag both": lambda: TgCfg(f=tag(f), i=tag(i)),
            "tag(s)": lambda: TgCfg(f=f, i=i, s=tag("x")),
            ".tag()": lambda: TgCfg(f=f, i=i).tag("f", f),
        }
        for name, mk in variants.items():
            cases += 1
            try:
                c = mk()
                if ident(c) != ident(plain):
                    failures.append(dict(name="C02 tagging a value changes the identifier", case=f"tagged:{name}:f={f!r},i={i!r}", plain=ident(plain), tagged=ident(c)))
                elif type(c.f) is not float or type(c.i) is not int:
                    failures.append(dict(name="C02 a tagged value is stored without the coercion of its parameter type", case=f"tagged-type:{name}:f={f!r},i={i!r}",
                                         f=repr(c.f), i=repr(c.i)))
                if ident(TgOuter(inner=c)) != ident(TgOuter(inner=plain)):
                    failures.append(dict(name="C02 tagging a nested value changes the identifier of the enclosing configuration", case=f"tagged-nested:{name}:f={f!r},i={i!r}"))
            except Exception as e:  # noqa
                failures.append(dict(name="C02 tagging a conforming value raises", case=f"tagged-raise:{name}:f={f!r},i={i!r}", error=repr(e)))
    return dict(tool="cpython: real identifiers with and without tags", bound=f"{len(grid)} value pairs x 5 ways of tagging, plain and nested", cases=cases, distinct=cases,
                failures=failures[:12])


def run_c01_defaults_not_shared(tier, seed):
    """C01 / C02: the default value installed for an unset parameter is a private copy: changing it in place on one instance
    changes neither the declared default nor later instances; a default that is a configuration with a generated parameter is
    still recognised as the default once the instance is sealed (Annotated generator form: no entry before sealing)."""
    import tempfile, shutil
    from pathlib import Path
    from experimaestro.xpmutils import DirectoryContext
    from bounded.zoo_ws import FdLearner, FdOptimizer, EqHolder, EqHolderOld, EqSub
    failures, cases = [], 0

    def ident(c):
        return c.__xpm__.identifier.all.hex()

    pristine = ident(FdLearner(epochs=3))
    h = FdLearner(epochs=3)
    h.optimizer.lr = 5e-2
    cases += 3
    if ident(FdLearner(epochs=3)) != pristine:
        failures.append(dict(name="C01 modifying the defaulted sub-configuration of one instance changes the identifier of later instances",
                             case="default-shared:later-instance", before=pristine, after=ident(FdLearner(epochs=3))))
    if FdLearner.__xpmtype__.arguments["optimizer"].default.lr != 1e-3:
        failures.append(dict(name="C01 modifying the defaulted sub-configuration of one instance changes the declared default", case="default-shared:class-default"))
    if ident(h) == pristine or ident(h) != ident(FdLearner(epochs=3, optimizer=FdOptimizer(lr=5e-2))):
        failures.append(dict(name="C01 an instance whose defaulted sub-configuration was modified does not get the identifier of its content", case="default-shared:modified-instance"))
    # default with a generated parameter (no entry before sealing)
    tmp = Path(tempfile.mkdtemp(prefix="verif-c01d-"))
    try:
        for mk, label in ((lambda: EqHolder(k=1), "unset"), (lambda: EqHolder(k=1, sub=EqSub(x=1)), "explicit copy")):
            cases += 2
            try:
                c = mk()
                before = ident(c)
                c.__xpm__.seal(DirectoryContext(tmp))
                after = ident(c)
                old_id = ident(EqHolderOld(k=1))
            except Exception as e:  # noqa
                failures.append(dict(name="C01 building / sealing / identifying a configuration whose default is a configuration raises", case=f"default-generated-annotated-raise:{label}",
                                     error=repr(e)))
                continue
            if after != before:
                failures.append(dict(name="C01 identifier changes when a configuration whose defaulted parameter has a generated field is sealed (Annotated generator)",
                                     case=f"default-generated-annotated:{label}", before=before, after=after))
            if after != old_id:
                failures.append(dict(name="C02 adding a defaulted parameter (configuration with a generated field) changes the identifier of a sealed configuration",
                                     case=f"default-generated-annotated-extended:{label}"))
    finally:
        shutil.rmtree(tmp, ignore_errors=True)
    return dict(tool="cpython: real identifiers", bound="2 class families", cases=cases, distinct=cases, failures=failures)


def run_c13_falsy_objects(tier, seed):
    """C13: a runtime object that happens to be falsy (a class defining __len__) is still the one object of its configuration: used
    as the target of a pre-task, and across two conversions sharing one object store."""
    from experimaestro.core.objects import ObjectStore
    from bounded.zoo_ws import FalsyBag, FalsyLoad, FalsyHolder
    failures, cases = [], 0
    for items in ([], [1]):
        bag = FalsyBag(items=list(items))
        holder = FalsyHolder(bag=bag)
        holder.add_pretasks(FalsyLoad(bag=bag))
        cases += 1
        try:
            inst = holder.instance()
            if getattr(inst.bag, "loaded", 0) != 1 or getattr(inst.bag, "inits", 0) != 1 or list(inst.bag.items) != list(items):
                failures.append(dict(name="C13 a falsy runtime object is not the one initialised / reached by the pre-task", case=f"falsy:pretask:items={items}",
                                     loaded=getattr(inst.bag, "loaded", None), inits=getattr(inst.bag, "inits", None)))
        except Exception as e:  # noqa
            failures.append(dict(name="C13 converting a graph with a falsy runtime object raises", case=f"falsy:pretask-raise:items={items}", error=repr(e)))
        bag2 = FalsyBag(items=list(items))
        h1, h2 = FalsyHolder(bag=bag2, k=1), FalsyHolder(bag=bag2, k=2)
        store = ObjectStore()
        cases += 1
        try:
            i1 = h1.instance(objects=store)
            i2 = h2.instance(objects=store)
            if i1.bag is not i2.bag or getattr(i1.bag, "inits", 0) != 1:
                failures.append(dict(name="C13 a shared falsy runtime object is duplicated or initialised again by a second conversion", case=f"falsy:shared-store:items={items}",
                                     same=i1.bag is i2.bag, inits=getattr(i1.bag, "inits", None)))
        except Exception as e:  # noqa
            failures.append(dict(name="C13 converting a graph with a falsy runtime object raises", case=f"falsy:store-raise:items={items}", error=repr(e)))
    return dict(tool="cpython: real instance() conversions", bound="2 values x 2 scenarios", cases=cases, distinct=cases, failures=failures)
