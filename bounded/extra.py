"""Small real-code checks added after the seeding rounds (bounded stand-ins, never counted as proved)."""


def run_c02_tagged_values(tier, seed):
    """C02: tagging a value (`x=tag(v)`, or `.tag(name, v)`) never changes the identifier - also when the tagged value needs the
    documented coercion of its parameter type (int for a float parameter, integral float for an int parameter)."""
    from experimaestro import tag
    from bounded.zoo_ws import TgCfg, TgOuter
    failures, cases = [], 0

    def ident(c):
        return c.__xpm__.identifier.all.hex()

    grid = [(1, 10), (1.0, 10), (1, 10.0), (0.5, 3), (2, 7.0)]
    for f, i in grid:
        plain = TgCfg(f=f, i=i)
        variants = {
            "tag(f)": lambda: TgCfg(f=tag(f), i=i),
            "tag(i)": lambda: TgCfg(f=f, i=tag(i)),
            "tag both": lambda: TgCfg(f=tag(f), i=tag(i)),
            "tag(s)": lambda: TgCfg(f=f, i=i, s=tag("x")),
            ".tag()": lambda: TgCfg(f=f, i=i).tag("f", f),
        }
        for name, mk in variants.items():
            cases += 1
            try:
                c = mk()
                if ident(c) != ident(plain):
                    failures.append(dict(name="C02 tagging a value changes the identifier", case=f"tagged:{name}:f={f!r},i={i!r}", plain=ident(plain), tagged=ident(c)))
                elif type(c.f) is not float or type(c.i) is not int:
                    failures.append(dict(name="C02 a tagged value is stored without the coercion of its parameter type", case=f"tagged-type:{name}:f={f!r},i={i!r}",
                                         f=repr(c.f), i=repr(c.i)))
                if ident(TgOuter(inner=c)) != ident(TgOuter(inner=plain)):
                    failures.append(dict(name="C02 tagging a nested value changes the identifier of the enclosing configuration", case=f"tagged-nested:{name}:f={f!r},i={i!r}"))
            except Exception as e:  # noqa
                failures.append(dict(name="C02 tagging a conforming value raises", case=f"tagged-raise:{name}:f={f!r},i={i!r}", error=repr(e)))
    return dict(tool="cpython: real identifiers with and without tags", bound=f"{len(grid)} value pairs x 5 ways of tagging, plain and nested", cases=cases, distinct=cases,
                failures=failures[:12])
