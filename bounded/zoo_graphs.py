"""Class zoo for the bounded graph checks (C12, C13, C14, C17).

All Config / Task classes used by bounded/graphs.py live here: the loader imports the defining module by name, and a
class defined in a script run as __main__ would make the loader re-execute the script.

Every class records its runtime life-cycle into the module-level LOG (list of tuples), so that the checks can count
__post_init__ / execute calls and see their relative order:
    ("post_init", obj, {param name: value seen at that time, or MISSING})
    ("execute", obj, role)      role is the class attribute ROLE ("lw" / "task")
(the objects themselves are stored, which also keeps them alive so that id() stays unique during a check)
"""
from enum import Enum
from pathlib import Path
from typing import Dict, List, Optional

from experimaestro import (
    Config,
    Constant,
    LightweightTask,
    Meta,
    Option,
    Param,
    PathGenerator,
    Task,
    field,
)

LOG: list = []
MISSING = "<missing>"


def reset_log():
    del LOG[:]


def zoo_class(obj):
    """The zoo class of a configuration object or of a runtime instance (both are instances of generated subclasses)"""
    for k in type(obj).__mro__:
        if k.__dict__.get("ZOO", False):
            return k
    raise TypeError(f"not a zoo object: {type(obj)}")


def param_names(obj):
    return list(zoo_class(obj).__getxpmtype__().arguments.keys())


def _post_init(self):
    names = param_names(self)
    LOG.append(("post_init", self, {n: self.__dict__.get(n, MISSING) for n in names}))


def _execute(self):
    LOG.append(("execute", self, getattr(self, "ROLE", "?")))


class Color(Enum):
    RED = 1
    GREEN = 2
    BLUE = "b"


class Sub(Config):
    """Base class of the zoo's plain configurations: lets parameters be typed List[Sub], Dict[str, Sub], ..."""

    __post_init__ = _post_init


class Leaf(Sub):
    """Scalars of every supported kind, with and without defaults, ignored and constant parameters"""

    i: Param[int]
    f: Param[float] = 0.5
    s: Param[str] = "a"
    b: Param[bool] = False
    p: Param[Path] = Path("/data/p")
    e: Param[Color] = Color.RED
    oi: Param[Optional[int]] = None
    li: Param[List[int]] = []
    ds: Param[Dict[str, int]] = {}
    m: Meta[int] = 0
    o: Option[str] = "o"
    mp: Meta[Optional[Path]] = None
    c: Constant[int] = 3

    __post_init__ = _post_init


class GenLeaf(Leaf):
    """A leaf with two generated paths (inheritance of parameters)"""

    out: Meta[Path] = field(default_factory=PathGenerator("out.txt"))
    log: Meta[Path] = field(default_factory=PathGenerator("log.txt"))

    __post_init__ = _post_init


class OptLeaf(Sub):
    """Optional parameters whose default is NOT None: an explicit None is a configured value of its own (it differs from
    the default, is hashed, and has to survive a round trip)"""

    i: Param[int]
    od: Param[Optional[int]] = 10
    of: Param[Optional[float]] = 0.25
    os: Param[Optional[str]] = "dflt"
    ob: Param[Optional[bool]] = True
    op: Param[Optional[Path]] = Path("/dflt/p")
    oe: Param[Optional[Color]] = Color.GREEN
    ol: Param[Optional[List[int]]] = [1, 2]
    odd: Param[Optional[Dict[str, int]]] = {"a": 1}
    mo: Meta[Optional[int]] = 3
    oo: Option[Optional[str]] = "o"
    on: Param[Optional[int]] = None  # control: default None

    __post_init__ = _post_init


class Node(Sub):
    """Inner node: every kind of reference to other configurations"""

    k: Param[int] = 0
    a: Param[Optional[Sub]] = None
    r: Param[Sub]  # required reference (may be left unset in specs that never validate; normally set)
    items: Param[List[Sub]] = []
    table: Param[Dict[str, Sub]] = {}
    anyc: Param[Optional[Config]] = None
    ma: Meta[Optional[Sub]] = None

    __post_init__ = _post_init


class GenNode(Sub):
    """Inner node with its own generated path"""

    k: Param[int] = 0
    a: Param[Optional[Sub]] = None
    items: Param[List[Sub]] = []
    table: Param[Dict[str, Sub]] = {}
    out: Meta[Path] = field(default_factory=PathGenerator("out.txt"))

    __post_init__ = _post_init


class GenGrid(Sub):
    """Containers nested directly in containers, holding configurations (with generated paths when the elements are
    GenLeaf / GenNode / GenGrid), plus its own generated path"""

    k: Param[int] = 0
    grid: Param[List[List[Sub]]] = []
    groups: Param[Dict[str, List[Sub]]] = {}
    rows: Param[List[Dict[str, Sub]]] = []
    dd: Param[Dict[str, Dict[str, Sub]]] = {}
    cube: Param[List[List[List[Sub]]]] = []
    out: Meta[Path] = field(default_factory=PathGenerator("out.txt"))

    __post_init__ = _post_init


class LoopA(Sub):
    nxt: Param["LoopB"]
    k: Param[int] = 0

    __post_init__ = _post_init


class LoopB(Sub):
    nxt: Param[Optional[Sub]] = None
    back: Param[Optional[LoopA]] = None
    k: Param[int] = 0

    __post_init__ = _post_init


# --- lightweight tasks (pre-tasks / init tasks)


class LW(LightweightTask):
    ROLE = "lw"
    k: Param[int] = 0
    target: Param[Optional[Config]] = None

    __post_init__ = _post_init
    execute = _execute


class LWGen(LightweightTask):
    ROLE = "lw"
    k: Param[int] = 0
    out: Meta[Path] = field(default_factory=PathGenerator("lw.txt"))

    __post_init__ = _post_init
    execute = _execute


# --- tasks


class TaskPlain(Task):
    """A task whose submission returns the task itself"""

    ROLE = "task"
    k: Param[int] = 0
    a: Param[Optional[Config]] = None
    items: Param[List[Sub]] = []
    table: Param[Dict[str, Sub]] = {}
    ma: Meta[Optional[Sub]] = None
    out: Meta[Path] = field(default_factory=PathGenerator("out.txt"))
    err: Meta[Path] = field(default_factory=PathGenerator("err.txt"))

    __post_init__ = _post_init
    execute = _execute


class TaskNoGen(Task):
    """A task without generated path (can be submitted outside of an experiment)"""

    ROLE = "task"
    k: Param[int] = 0
    a: Param[Optional[Config]] = None
    items: Param[List[Sub]] = []
    table: Param[Dict[str, Sub]] = {}
    ma: Meta[Optional[Sub]] = None

    __post_init__ = _post_init
    execute = _execute


class TaskGrid(Task):
    """A task with nested containers of configurations at top level (and flat ones: same parameter names as the
    positions inside the nested ones would produce)"""

    ROLE = "task"
    k: Param[int] = 0
    a: Param[Optional[Config]] = None
    items: Param[List[Sub]] = []
    grid: Param[List[List[Sub]]] = []
    groups: Param[Dict[str, List[Sub]]] = {}
    rows: Param[List[Dict[str, Sub]]] = []
    dd: Param[Dict[str, Dict[str, Sub]]] = {}
    out: Meta[Path] = field(default_factory=PathGenerator("out.txt"))

    __post_init__ = _post_init
    execute = _execute


class TaskOut(Task):
    """A task with task_outputs: submission returns a (new) configuration that depends on the task"""

    ROLE = "task"
    k: Param[int] = 0
    a: Param[Optional[Config]] = None

    def task_outputs(self, dep) -> Leaf:
        return dep(Leaf(i=self.k))

    __post_init__ = _post_init
    execute = _execute


class TaskOutGen(Task):
    """task_outputs returns a configuration that has generated paths and wraps a parameter of the task"""

    ROLE = "task"
    k: Param[int] = 0
    a: Param[Optional[Sub]] = None
    out: Meta[Path] = field(default_factory=PathGenerator("out.txt"))

    def task_outputs(self, dep) -> GenNode:
        return dep(GenNode(k=self.k, a=self.a))

    __post_init__ = _post_init
    execute = _execute


class TaskOutPre(Task):
    """task_outputs in the style of the serializers: the returned configuration carries a pre-task that depends on the
    task and refers back to the configuration (cycle through the pre-task)"""

    ROLE = "task"
    k: Param[int] = 0
    a: Param[Optional[Config]] = None

    def task_outputs(self, dep) -> Leaf:
        leaf = Leaf(i=self.k)
        return leaf.add_pretasks(dep(LW(k=self.k, target=leaf)))

    __post_init__ = _post_init
    execute = _execute


ZOO_CLASSES = (Leaf, GenLeaf, OptLeaf, Node, GenNode, GenGrid, LoopA, LoopB, LW, LWGen, TaskPlain, TaskNoGen, TaskGrid, TaskOut,
               TaskOutGen, TaskOutPre)
for _c in ZOO_CLASSES:
    _c.ZOO = True  # set after class creation: found in the class __dict__ of exactly these classes

CLASSES = {c.__name__: c for c in ZOO_CLASSES}
