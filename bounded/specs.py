"""C18 — bounded stand-in (never counted as proved): the real requirement classes on a grid of requests and hosts.
Oracle written from the property statement: a simple request matches a host iff the host offers at least the requested number
of GPUs (each with at least the requested memory, pairwise after sorting), CPU memory and cores, and - when the host limits it -
the requested duration; `&` is the componentwise maximum plus the union of the GPU lists, `*` replicates the GPU list and keeps
everything else; neither changes its operands; a union returns its first matching alternative."""
import copy
import itertools
import random


def _mk(gpus, mem, cores, duration):
    from experimaestro.launcherfinder.specs import HostSimpleRequirement, CPUSpecification, CudaSpecification
    r = HostSimpleRequirement()
    r.cpu = CPUSpecification(mem, cores)
    r.cuda_gpus = [CudaSpecification(g) for g in gpus]
    r.duration = duration
    return r


def _host(gpus, mem, cores, max_duration, priority=0):
    from experimaestro.launcherfinder.specs import HostSpecification, CPUSpecification, CudaSpecification
    return HostSpecification(cuda=[CudaSpecification(g) for g in gpus], cpu=CPUSpecification(mem, cores), max_duration=max_duration, priority=priority)


def _sig(r):
    return (sorted(g.memory for g in r.cuda_gpus), r.cpu.memory, r.cpu.cores, r.duration)


def run_c18(tier, seed):
    from experimaestro.launcherfinder.specs import RequirementUnion
    rng = random.Random(seed)
    failures, cases = [], 0

    def fail(name, **kw):
        if len(failures) < 12:
            failures.append(dict(name=name, **kw))

    GP = [[], [8], [8, 16], [24, 24]]
    reqs = [_mk(g, m, c, d) for g in GP for m in (0, 4, 64) for c in (1, 16) for d in (0, 3600, 400000)]
    rng.shuffle(reqs)
    reqs = reqs[: (40 if tier == "quick" else len(reqs))]
    hosts = [_host(g, m, c, md) for g in ([], [16], [24, 24, 24]) for m in (8, 128) for c in (4, 32) for md in (0, 7200, 1000000)]
    # --- combination
    for a, b in itertools.islice(itertools.product(reqs, reqs), 0, 900 if tier == "quick" else None):
        sa, sb = _sig(a), _sig(b)
        ca, cb = copy.deepcopy(a), copy.deepcopy(b)
        r = a & b
        cases += 1
        want = (sorted(sa[0] + sb[0]), max(sa[1], sb[1]), max(sa[2], sb[2]), max(sa[3], sb[3]))
        if _sig(r) != want:
            fail("C18 a & b is not the combination of its operands", case=f"and:{sa}&{sb}", got=str(_sig(r)), want=str(want))
        if _sig(a) != _sig(ca) or _sig(b) != _sig(cb):
            fail("C18 combining requests with & altered an operand", case=f"and-operands:{sa}&{sb}", a=str(_sig(a)), b=str(_sig(b)))
        # the result is independent of its operands afterwards
        r.cpu.memory += 1
        if _sig(a) != _sig(ca) or _sig(b) != _sig(cb):
            fail("C18 the result of & shares state with an operand", case=f"and-alias:{sa}&{sb}")
    for a in reqs:
        sa = _sig(a); ca = copy.deepcopy(a)
        for n in (1, 2, 3):
            r = a * n
            cases += 1
            want = (sorted(sa[0] * n), sa[1], sa[2], sa[3])
            if _sig(r) != want:
                fail("C18 request * n is not n copies of the GPU list with everything else kept", case=f"mul:{sa}*{n}", got=str(_sig(r)), want=str(want))
            if _sig(a) != _sig(ca):
                fail("C18 multiplying a request altered the operand", case=f"mul-operand:{sa}*{n}")
    # --- matching
    for r in reqs:
        for h in hosts:
            cases += 1
            got = r.match(h) is not None
            rg, hg = sorted(g.memory for g in r.cuda_gpus), [g.memory for g in h.cuda]
            want = (len(hg) >= len(rg) and all(x >= y for x, y in zip(hg, rg)) and h.cpu.memory >= r.cpu.memory and h.cpu.cores >= r.cpu.cores
                    and (h.max_duration <= 0 or r.duration <= h.max_duration) and len(rg) >= h.min_gpu)
            if got and not want:
                fail("C18 a request matched a host that does not offer what it asks for", case=f"match:{_sig(r)} on gpus={hg} cpu=({h.cpu.memory},{h.cpu.cores}) max_duration={h.max_duration}")
    # --- unions: first matching alternative
    for _ in range(300 if tier == "quick" else 3000):
        alts = rng.sample(reqs, 3)
        h = rng.choice(hosts)
        u = RequirementUnion(*alts)
        m = u.match(h)
        cases += 1
        firsts = [k for k, r in enumerate(alts) if r.match(h) is not None]
        if (m is None) != (not firsts):
            fail("C18 a union matches iff one of its alternatives does", case=f"union:{[_sig(r) for r in alts]}")
        elif m is not None and m.requirement is not alts[firsts[0]]:
            fail("C18 a union did not return its first matching alternative", case=f"union-first:{[_sig(r) for r in alts]}", got=str(_sig(m.requirement)), first=str(_sig(alts[firsts[0]])))
    return dict(tool="cpython: real HostSimpleRequirement / RequirementUnion objects against an oracle written from the property statement",
                bound=f"{len(reqs)} requests x {len(hosts)} hosts; & on pairs, * for n in 1..3, unions of 3 alternatives", cases=cases, distinct=len(reqs) * len(hosts), failures=failures)
