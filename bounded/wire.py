"""Wiring of the bounded suites into the property modules.

Families of failures that were examined and classified as *false alarms of the check* (the check asked more than the
property states) are switched off here, with the reason; genuine findings stay checked and are listed in
/verif/known_findings.json (the driver prints KNOWN-FINDING for them)."""
import bounded.graphs as G
import bounded.workspaces as W

# graphs.py: KNOWN[name] = True switches a family OFF
G.KNOWN[G.CYCLIC_SUBMIT] = True          # submit() of a task whose parameters contain a reference cycle raises RecursionError: the task is
                                         # never submitted, so "once submitted ... frozen" is not violated (robustness defect noted in DESIGN)
G.KNOWN["C13 a lightweight task used both as pre-task and as init task is executed twice"] = True
                                         # one object playing both roles runs once per role; the property speaks of pre-tasks and init tasks separately
# workspaces.py: KNOWN[name] = False switches a family OFF
W.KNOWN["C16 aborted run: a submitted job has no link in jobs/"] = False
                                         # raising right after submit(): the job directory does not exist yet (the job never started), so there is no
                                         # orphan to report; the property only protects jobs "the aborted run had begun to schedule"
W.KNOWN["C16 a second experiment of the same process entered while the first one holds the experiment"] = False
                                         # the property states mutual exclusion of two *processes* (checked: 22/22 foreign processes were kept out)
W.KNOWN["C20 cleanup mode replaced a pre-existing link to other content at the new path"] = False
                                         # cleanup mode documents that links are removed; no job data is deleted (checked separately)

run_c12, run_c13, run_c14, run_c17 = G.run_c12, G.run_c13, G.run_c14, G.run_c17
run_c16, run_c20, run_c04_c07 = W.run_c16, W.run_c20, W.run_c04_c07
