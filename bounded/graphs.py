"""Bounded stand-ins for C12, C13, C14 and C17: the real code is run on enumerated configuration graphs.

Graphs are *specs* (plain data, so that an equal graph can be rebuilt at will) over the class zoo of
bounded/zoo_graphs.py.  A spec is {"label": str, "nodes": [node, ...]}; the last node is the root.  A node is
    {"cls": zoo class name, "vals": {scalar parameter: value}, "refs": {parameter: j | [j, ...] | {key: j} | nested containers},
     "meta": None/True/False, "pre": [j, ...] (pre-tasks), "init": [j, ...] (init tasks, tasks only),
     "submit": bool (inner task: submitted in dry-run mode when built; referrers see what submit() returned)}
References to a node of lower index are given to the constructor, references to the node itself or to a node of
higher index are assigned afterwards (that is how cycles and self-loops are made).

The four checks are run_c12, run_c13, run_c14, run_c17 (tier, seed) -> dict.  They run inside a dry-run experiment; run_c14
also runs duplicate submissions in a real experiment (NORMAL run mode, tiny jobs) in a subprocess: see _c14_dup.
Spec families: handcrafted, gen_positions, gen_cross_task, gen_nested (containers nested in containers), opt_defaults
(optional parameters with a non-None default set to None), dup_pretask, dual_use, and random draws (rand_spec).

KNOWN: failure name -> True switches the corresponding family/check off (default False: still checked).
"""
import contextlib
import hashlib
import io
import json
import logging
import os
import random
import tempfile
from enum import Enum
from pathlib import Path

CYCLIC_SUBMIT = "C14 submitting a task whose parameters contain a cycle raises RecursionError (cannot be submitted, hence not frozen)"
KNOWN = {
    CYCLIC_SUBMIT: False,
    "C17 generated path of a configuration shared with an already submitted task lies in that task's job directory": False,
    "C13 a lightweight task used both as pre-task and as init task is executed twice": False,
}

# --------------------------------------------------------------------------------------------------------------------
# value pools

INTS = [0, 1, -1, 7, 2**40, -(2**62), True, 3.0]
FLOATS = [0.0, -0.0, 1.5, -2.25, 1e22, 1e-7, float("inf"), float("nan"), 2]
STRS = ["", "a", "type", "é☃", "line\nbreak", '{"type": "path"}', " spaced ", "python"]
PATHS = [Path("/data/p"), Path("rel/x.txt"), Path("."), Path("/a b/ü"), "/from/str"]
KEYS = ["a", "b", "0", "value", "é", "k.1", "__pre_tasks__"]  # never "type" (recorded finding); plain names (no "/")
LISTS = [[], [1, 2], [0, 0], [2**40, -1]]
DICTS = [{}, {"a": 1}, {"value": 2, "b": 3}, {"0": 0}]
NESTED_KEYS = ["a", "0", "1"]  # keys of inner dicts: few, so that two inner dicts have a key in common; "0"/"1" look like list indexes

# OptLeaf: optional parameter -> (its non-None default, another value)
OPT_PARAMS = {
    "od": (10, 5), "of": (0.25, 1.5), "os": ("dflt", ""), "ob": (True, False), "op": (Path("/dflt/p"), Path("rel/x.txt")),
    "ol": ([1, 2], []), "odd": ({"a": 1}, {}), "mo": (3, 0), "oo": ("o", "x"), "on": (None, 7),
}

SUB, ANY, LWT, INIT, LOOPA, LOOPB = "sub", "any", "lw", "init", "loopA", "loopB"

# what the *handle* of a node (the object referrers see) can be used for
CAPS = {
    "Leaf": {SUB, ANY}, "GenLeaf": {SUB, ANY}, "OptLeaf": {SUB, ANY}, "Node": {SUB, ANY}, "GenNode": {SUB, ANY}, "GenGrid": {SUB, ANY},
    "LoopA": {SUB, ANY, LOOPA}, "LoopB": {SUB, ANY, LOOPB},
    "LW": {ANY, LWT, INIT}, "LWGen": {ANY, LWT, INIT},
    "TaskPlain": {ANY, INIT}, "TaskNoGen": {ANY, INIT}, "TaskGrid": {ANY, INIT},
    "TaskOut": {SUB, ANY}, "TaskOutGen": {SUB, ANY}, "TaskOutPre": {SUB, ANY},
}
# reference slots: (parameter, kind)
SLOTS = {
    "Leaf": [], "GenLeaf": [], "OptLeaf": [],
    "Node": [("r", "sub1"), ("a", "sub?"), ("items", "subL"), ("table", "subD"), ("anyc", "any?"), ("ma", "sub?")],
    "GenNode": [("a", "sub?"), ("items", "subL"), ("table", "subD")],
    "GenGrid": [("grid", "subLL"), ("groups", "subDL"), ("rows", "subLD"), ("dd", "subDD"), ("cube", "subLLL")],
    "TaskGrid": [("a", "any?"), ("items", "subL"), ("grid", "subLL"), ("groups", "subDL"), ("rows", "subLD"), ("dd", "subDD")],
    "LoopA": [("nxt", "loopB1")], "LoopB": [("nxt", "sub?"), ("back", "loopA?")],
    "LW": [("target", "any?")], "LWGen": [],
    "TaskPlain": [("a", "any?"), ("items", "subL"), ("table", "subD"), ("ma", "sub?")],
    "TaskNoGen": [("a", "any?"), ("items", "subL"), ("table", "subD"), ("ma", "sub?")],
    "TaskOut": [("a", "any?")], "TaskOutGen": [("a", "sub?")], "TaskOutPre": [("a", "any?")],
}
TASKS = ("TaskPlain", "TaskNoGen", "TaskOut", "TaskOutGen", "TaskOutPre", "TaskGrid")
GEN_CLASSES = ("GenLeaf", "GenNode", "GenGrid", "LWGen", "TaskPlain", "TaskOutGen", "TaskGrid")


# --------------------------------------------------------------------------------------------------------------------
# specs


def N(cls, meta=None, pre=(), init=(), submit=False, refs=None, **vals):
    return {"cls": cls, "vals": dict(vals), "refs": dict(refs or {}), "meta": meta, "pre": list(pre), "init": list(init),
            "submit": bool(submit)}


def G(label, *nodes):
    return {"label": label, "nodes": list(nodes)}


def targets(ref):
    """Node indexes of a reference (containers may be nested: [[j, ...], ...], {key: [j, ...]}, [{key: j}], ...)"""
    if isinstance(ref, int):
        return [ref]
    out = []
    for x in (ref if isinstance(ref, list) else ref.values()):
        out.extend(targets(x))
    return out


def spec_key(spec):
    return hashlib.sha1(repr(spec["nodes"]).encode("utf-8")).hexdigest()[:10]


def spec_case(spec, extra=""):
    return f"{spec['label']}:{spec_key(spec)}{extra}"


def spec_str(spec, limit=700):
    out = []
    for j, nd in enumerate(spec["nodes"]):
        s = f"{j}:{nd['cls']}"
        if nd["vals"]:
            s += "(" + ",".join(f"{k}={v!r}" for k, v in nd["vals"].items()) + ")"
        if nd["refs"]:
            s += "{" + ",".join(f"{k}->{v!r}" for k, v in nd["refs"].items()) + "}"
        for k in ("meta", "pre", "init", "submit"):
            if nd[k] not in (None, [], False):
                s += f" {k}={nd[k]!r}"
        out.append(s)
    return "; ".join(out)[:limit]


def well_formed(spec):
    """Can the spec be built?  (type compatibility is by construction; here: order constraints caused by the sealing
    done when an inner task is submitted)"""
    nodes = spec["nodes"]
    root = len(nodes) - 1
    late = [any(t >= j for ref in nd["refs"].values() for t in targets(ref)) or any(p >= j for p in nd["pre"])
            for j, nd in enumerate(nodes)]
    sealed = set()
    for j, nd in enumerate(nodes):
        if any(t > root for ref in nd["refs"].values() for t in targets(ref)):
            return False
        if nd["submit"] and j != root:
            if nd["cls"] not in TASKS or late[j] or any(i >= j for i in nd["init"]):
                return False
            todo, reach = [j], set()
            while todo:
                x = todo.pop()
                if x in reach:
                    continue
                reach.add(x)
                if late[x]:
                    return False
                nx = nodes[x]
                todo.extend(t for ref in nx["refs"].values() for t in targets(ref))
                todo.extend(nx["pre"])
                todo.extend(nx["init"])
            sealed |= reach
        elif nd["cls"] in TASKS and j != root:
            return False  # an inner task must be submitted before it is used
    # late assignments / late pre-task attachments / meta happen on unsealed nodes only
    for j, nd in enumerate(nodes):
        if late[j] and j in sealed:
            return False
    if nodes[root]["init"] and nodes[root]["cls"] not in TASKS:
        return False
    return True


def submit_hits_cycle(spec, j):
    """Does the submission of task j walk into a cycle?  (ConfigInformation.updatedependencies follows parameters,
    pre-tasks and init tasks without a visited set; it does not enter what other submitted tasks returned)"""
    nodes = spec["nodes"]
    state = {}

    def dfs(x):
        state[x] = 1
        nx = nodes[x]
        succ = [t for ref in nx["refs"].values() for t in targets(ref)] + list(nx["pre"]) + list(nx["init"])
        for y in succ:
            if y != j and nodes[y]["submit"] and y != len(nodes) - 1:
                continue
            if state.get(y) == 1:
                return True
            if y not in state and dfs(y):
                return True
        state[x] = 2
        return False

    return dfs(j)


def crashing_submission(spec, seal_root):
    """Index of the first task whose submission would recurse for ever, or None"""
    nodes = spec["nodes"]
    root = len(nodes) - 1
    for j, nd in enumerate(nodes):
        if (nd["submit"] and j != root) or (j == root and seal_root and nd["cls"] in TASKS):
            if submit_hits_cycle(spec, j):
                return j
    return None


# --------------------------------------------------------------------------------------------------------------------
# session (temporary workspace + dry-run experiment) and builder


class Session:
    def __init__(self):
        self._stack = contextlib.ExitStack()
        self.dir = None
        self.xp = None
        self.counter = 0

    def __enter__(self):
        from experimaestro import experiment, RunMode

        st = self._stack
        st.__enter__()
        self.dir = Path(st.enter_context(tempfile.TemporaryDirectory(prefix="xpm-bounded-")))
        lg = logging.getLogger("xpm")
        old = lg.level
        lg.setLevel(logging.CRITICAL + 1)
        st.callback(lg.setLevel, old)
        st.enter_context(contextlib.redirect_stderr(io.StringIO()))
        self.xp = st.enter_context(experiment(self.dir / "ws", "x", port=-1, run_mode=RunMode.DRY_RUN))
        return self

    def __exit__(self, *exc):
        return self._stack.__exit__(*exc)

    def fresh_dir(self):
        self.counter += 1
        return self.dir / "ctx" / str(self.counter)


class Built:
    def __init__(self, spec):
        self.spec = spec
        self.objs = []
        self.handles = []
        self.root = None
        self.out = None
        self.sealed_root = False
        self.ctx_dir = None


def _resolve(ref, handles):
    if isinstance(ref, int):
        return handles[ref]
    if isinstance(ref, list):
        return [_resolve(x, handles) for x in ref]
    return {k: _resolve(x, handles) for k, x in ref.items()}


def has_generators(spec):
    return any(nd["cls"] in GEN_CLASSES for nd in spec["nodes"])


def build(spec, ses, seal_root, run_mode=None, first=None, share=(), order="given"):
    """Build the graph of the spec; inner tasks are submitted (dry run, unless run_mode says otherwise). If seal_root: the
    root is submitted when it is a task, sealed otherwise.
    first / share: the nodes whose index is in share are not built again but taken from the Built `first` (same spec).
    order: "given" = keyword arguments in the order scalars, then references as written in the spec; "reversed" = the same
    keyword arguments in the opposite order, late attribute assignments in the opposite order too (the same configuration:
    lists and dicts keep their content and their order); "reversed+dicts": also the items of dict values in the opposite order."""
    import bounded.zoo_graphs as zoo
    from experimaestro import RunMode, setmeta
    from experimaestro.core.objects import ConfigWalkContext
    from experimaestro.xpmutils import DirectoryContext

    run_mode = RunMode.DRY_RUN if run_mode is None else run_mode
    b = Built(spec)
    nodes = spec["nodes"]
    root = len(nodes) - 1
    late_refs, late_pre = [], []
    for j, nd in enumerate(nodes):
        if j in share:
            b.objs.append(first.objs[j])
            b.handles.append(first.handles[j])
            continue
        cls = zoo.CLASSES[nd["cls"]]
        kwargs = dict(nd["vals"])
        for name, ref in nd["refs"].items():
            if all(t < j for t in targets(ref)):
                kwargs[name] = _resolve(ref, b.handles)
            else:
                late_refs.append((j, name, ref))
        if order != "given":
            kwargs = dict(reversed(list(kwargs.items())))
            if order == "reversed+dicts":
                kwargs = {k: (dict(reversed(list(v.items()))) if isinstance(v, dict) else v) for k, v in kwargs.items()}
        o = cls(**kwargs)
        if nd["meta"] is not None:
            setmeta(o, nd["meta"])
        if nd["pre"]:
            if all(p < j for p in nd["pre"]):
                o.add_pretasks(*[b.handles[p] for p in nd["pre"]])
            else:
                late_pre.append((j, nd["pre"]))
        b.objs.append(o)
        b.handles.append(o)
        if nd["submit"] and j != root:
            b.handles[j] = o.submit(run_mode=run_mode, init_tasks=[b.handles[i] for i in nd["init"]])
    if order != "given":
        late_refs.reverse()
    for j, name, ref in late_refs:
        v = _resolve(ref, b.handles)
        if order == "reversed+dicts" and isinstance(v, dict):
            v = dict(reversed(list(v.items())))
        setattr(b.objs[j], name, v)
    for j, pre in late_pre:
        b.objs[j].add_pretasks(*[b.handles[p] for p in pre])
    b.root = b.objs[root]
    if seal_root:
        if nodes[root]["cls"] in TASKS:
            b.out = b.root.submit(run_mode=run_mode, init_tasks=[b.handles[i] for i in nodes[root]["init"]])
        else:
            if has_generators(spec):
                b.ctx_dir = ses.fresh_dir()
                ctx = DirectoryContext(b.ctx_dir)
            else:
                ctx = ConfigWalkContext()
            b.root.__xpm__.seal(ctx)
        b.sealed_root = True
    return b


# --------------------------------------------------------------------------------------------------------------------
# walking and canonical forms (never uses == on configurations: cyclic graphs)


def _is_config(v):
    from experimaestro import Config

    return isinstance(v, Config)


def _subconfigs(v, out):
    if _is_config(v):
        out.append(v)
    elif isinstance(v, list):
        for x in v:
            _subconfigs(x, out)
    elif isinstance(v, dict):
        for x in v.values():
            _subconfigs(x, out)
    return out


def children(c, params=True, pre=True, init=True, task=True, stop=None):
    info = c.__xpm__
    out = []
    if params:
        for _, v in info.xpmvalues():
            _subconfigs(v, out)
    if pre:
        out.extend(info.pre_tasks)
    if init:
        out.extend(info.init_tasks)
    if task and info.task is not None:
        out.append(info.task)
    return out


def walk(root, stop=None, **follow):
    """Configurations reachable from root in first-visit order. stop(c) -> True: c is not entered (and not listed)"""
    seen, order = set(), []

    def visit(c):
        if id(c) in seen:
            return
        if stop is not None and c is not root and stop(c):
            return
        seen.add(id(c))
        order.append(c)
        for x in children(c, **follow):
            visit(x)

    visit(root)
    return order


def cval(v, ref):
    if v is None:
        return ["none"]
    if isinstance(v, bool):
        return ["bool", v]
    if isinstance(v, int):
        return ["int", v]
    if isinstance(v, float):
        return ["float", repr(v)]
    if isinstance(v, str):
        return ["str", v]
    if isinstance(v, Path):
        return ["path", str(v)]
    if isinstance(v, Enum):
        return ["enum", type(v).__module__ + "." + type(v).__qualname__, v.name]
    if isinstance(v, list):
        return ["list", [cval(x, ref) for x in v]]
    if isinstance(v, dict):
        return ["dict", [[k, cval(x, ref)] for k, x in sorted(v.items(), key=lambda kv: repr(kv[0]))]]
    if _is_config(v):
        return ["ref", ref(v)]
    return ["other", type(v).__name__]


def _clsname(c):
    import bounded.zoo_graphs as zoo

    t = zoo.zoo_class(c)
    return t.__module__ + "." + t.__qualname__


def canon(roots, pre=True, init=True, task=True, meta=True):
    """Canonical form of configuration graphs: records in first-visit order, references replaced by record numbers"""
    from experimaestro.core.objects import TypeConfig

    order, recs = {}, []

    def ref(c):
        if id(c) in order:
            return order[id(c)]
        i = order[id(c)] = len(recs)
        recs.append(None)
        info = c.__xpm__
        rec = {"cls": _clsname(c), "config": isinstance(c, TypeConfig),
               "vals": {a.name: cval(v, ref) for a, v in info.xpmvalues()}}
        if meta:
            rec["meta"] = info.meta
        if pre:
            rec["pre"] = [ref(p) for p in info.pre_tasks]
        if init:
            rec["init"] = [ref(p) for p in info.init_tasks]
        if task:
            rec["task"] = None if info.task is None else ref(info.task)
        recs[i] = rec
        return i

    heads = [cval(r, ref) for r in roots]
    return {"roots": heads, "nodes": recs}


def canon_inst(roots):
    """Same for runtime instances (parameters only)"""
    import bounded.zoo_graphs as zoo
    from experimaestro.core.objects import TypeConfig

    order, recs = {}, []

    def ref(o):
        if id(o) in order:
            return order[id(o)]
        i = order[id(o)] = len(recs)
        recs.append(None)
        vals = {}
        for name in zoo.param_names(o):
            v = o.__dict__.get(name, zoo.MISSING)
            if v is not zoo.MISSING:
                vals[name] = cval(v, ref)
        recs[i] = {"cls": _clsname(o), "config": isinstance(o, TypeConfig), "vals": vals}
        return i

    heads = [cval(r, ref) for r in roots]
    return {"roots": heads, "nodes": recs}


def first_diff(a, b, path=""):
    if type(a) is not type(b):
        return f"{path}: {a!r} != {b!r}"[:300]
    if isinstance(a, dict):
        for k in sorted(set(a) | set(b), key=repr):
            if k not in a or k not in b:
                return f"{path}/{k}: {'missing' if k not in a else a[k]!r} != {'missing' if k not in b else b[k]!r}"[:300]
            d = first_diff(a[k], b[k], f"{path}/{k}")
            if d:
                return d
        return None
    if isinstance(a, list):
        if len(a) != len(b):
            return f"{path}: length {len(a)} != {len(b)}: {a!r} != {b!r}"[:300]
        for i, (x, y) in enumerate(zip(a, b)):
            d = first_diff(x, y, f"{path}/{i}")
            if d:
                return d
        return None
    return None if a == b else f"{path}: {a!r} != {b!r}"[:300]


def ident(c):
    return c.__xpm__.identifier.all.hex()


# --------------------------------------------------------------------------------------------------------------------
# enumeration


def leaf_vals(rng):
    v = {"i": rng.choice(INTS)}
    for name, pool, p in (("f", FLOATS, .5), ("s", STRS, .5), ("b", [True, False, 1, 0], .3), ("p", PATHS, .4),
                          ("oi", [None, 0, 5], .4), ("li", LISTS, .4), ("ds", DICTS, .4), ("m", [0, 4], .3),
                          ("o", ["o", "x", "type"], .3), ("mp", [None, Path("/m/x"), Path("y")], .3)):
        if rng.random() < p:
            v[name] = rng.choice(pool)
    if rng.random() < .4:
        import bounded.zoo_graphs as zoo

        v["e"] = rng.choice(list(zoo.Color))
    return v


def _fill(rng, cls, kinds, share):
    """References of a new node to earlier nodes"""
    def cands(cap):
        return [j for j, k in enumerate(kinds) if cap in k]

    def pick(pool):
        # prefer recently used nodes: produces shared references
        if share and rng.random() < .5:
            inter = [j for j in share if j in pool]
            if inter:
                return rng.choice(inter)
        j = rng.choice(pool)
        share.append(j)
        return j

    refs = {}
    for name, kind in SLOTS[cls]:
        if kind.startswith("sub"):
            pool = cands(SUB)
        elif kind == "any?":
            pool = cands(ANY)
        elif kind == "loopB1":
            pool = cands(LOOPB)
        else:
            pool = cands(LOOPA)
        if not pool:
            if kind.endswith("1"):
                return None
            continue
        if kind.endswith("1"):
            refs[name] = pick(pool)
        elif kind.endswith("?"):
            if rng.random() < .55:
                refs[name] = pick(pool)
        elif kind == "subL":
            if rng.random() < .5:
                refs[name] = [pick(pool) for _ in range(rng.randint(1, 3))]
        elif kind == "subD":
            if rng.random() < .4:
                refs[name] = {k: pick(pool) for k in rng.sample(KEYS, rng.randint(1, 2))}
        elif rng.random() < .5:
            # containers nested directly in containers: several inner containers that have the same indexes / keys
            used = []

            def inner(shape):
                if not shape:
                    # mostly distinct elements: it is the *position* that has to tell equal-looking elements apart
                    unused = [j for j in pool if j not in used]
                    j = rng.choice(unused) if unused and rng.random() < .8 else pick(pool)
                    used.append(j)
                    return j
                if shape[0] == "L":
                    return [inner(shape[1:]) for _ in range(rng.randint(1, 2))]
                return {k: inner(shape[1:]) for k in rng.sample(NESTED_KEYS, rng.randint(1, 2))}

            shape = kind[3:]
            if shape[0] == "L":
                refs[name] = [inner(shape[1:]) for _ in range(rng.randint(1, 3))]
            else:
                refs[name] = {k: inner(shape[1:]) for k in rng.sample(KEYS, rng.randint(1, 2))}
    return refs


def opt_vals(rng):
    """Values of an OptLeaf: each optional parameter left out / None / equal to its default / another value"""
    v = {"i": rng.choice(INTS[:4])}
    for name, (dflt, other) in OPT_PARAMS.items():
        x = rng.random()
        if x < .4:
            v[name] = None
        elif x < .5:
            v[name] = dflt
        elif x < .65:
            v[name] = other
    x = rng.random()
    if x < .55:
        import bounded.zoo_graphs as zoo

        v["oe"] = None if x < .4 else rng.choice(list(zoo.Color))
    return v


def rand_spec(rng, label, *, gen=False, tasks=True, lws=True, cycles=True, metas=True, root="any", size=None, opt=False, nested=False):
    """A random well-formed spec (None if the draw is not well formed).  opt: OptLeaf among the leaves; nested: GenGrid /
    TaskGrid (containers nested in containers) among the inner nodes / tasks"""
    size = size or (rng.randint(3, 5) if nested else rng.randint(1, 4))
    plan = ["plain"] * size
    if lws:
        plan += ["lw"] * rng.choice([0, 0, 1, 1, 2])
    if tasks and rng.random() < .45:
        plan += ["task"]
    head, rest = plan[0], plan[1:]
    rng.shuffle(rest)
    plan = [head] + rest

    nodes, kinds, share = [], [], []
    plain_leaf = ["Leaf", "GenLeaf"] if gen else ["Leaf"]
    plain_inner = ["Node", "LoopB", "LoopA"] + (["GenNode", "GenNode"] if gen else ["Node"])
    lw_cls = ["LW", "LW", "LWGen"] if gen else ["LW"]
    task_cls = ["TaskNoGen", "TaskOut", "TaskOutPre"] + (["TaskPlain", "TaskOutGen", "TaskOutGen"] if gen else [])
    if opt:
        plain_leaf = plain_leaf + ["OptLeaf", "OptLeaf"]
    if nested:
        if gen:
            plain_leaf = plain_leaf + ["GenLeaf"] * 3
        plain_inner = plain_inner + ["GenGrid"] * 4
        task_cls = task_cls + ["TaskGrid"] * 5

    def meta():
        return rng.choice([None, None, None, None, True, False]) if metas else None

    def add(cls, **kw):
        refs = _fill(rng, cls, kinds, share)
        if refs is None:
            return False
        if cls == "OptLeaf":
            vals = opt_vals(rng)
        else:
            vals = leaf_vals(rng) if cls in ("Leaf", "GenLeaf") else ({"k": rng.choice([0, 1, 2])} if rng.random() < .6 else {})
        nodes.append(N(cls, refs=refs, **kw, **vals))
        kinds.append(CAPS[cls])
        return True

    for what in plan:
        if what == "plain":
            cls = rng.choice(plain_leaf) if (not kinds or rng.random() < .4) else rng.choice(plain_inner)
            if not add(cls, meta=meta()):
                add(rng.choice(plain_leaf), meta=meta())
        elif what == "lw":
            add(rng.choice(lw_cls), meta=meta() if rng.random() < .3 else None)
        else:
            cls = rng.choice(task_cls)
            init = [j for j, k in enumerate(kinds) if INIT in k and rng.random() < .4]
            add(cls, submit=True, init=init)

    # root
    if root == "task":
        rcls = rng.choice(task_cls)
    elif root == "config":
        rcls = rng.choice(["Node", "LoopA", "LoopB"] + (["GenNode"] if gen else []) + (["GenGrid"] * 3 if nested else []))
    else:
        rcls = rng.choice(task_cls + ["Node", "LoopA", "LoopB"] + (["GenNode"] if gen else []) + (["GenGrid"] * 3 if nested else []))
    if not add(rcls):
        add("TaskNoGen" if root == "task" else "LoopB")
    rootj = len(nodes) - 1

    # cycles / forward references: a lower container gets a reference to itself or to a later node
    if cycles and rng.random() < .6:
        for _ in range(rng.choice([1, 1, 2])):
            srcs = [j for j, nd in enumerate(nodes) if nd["cls"] in ("Node", "GenNode", "LoopB", "TaskNoGen", "TaskPlain")
                    and not nd["submit"]]
            if not srcs:
                break
            i = rng.choice(srcs)
            nd = nodes[i]
            if nd["cls"] == "LoopB":
                las = [j for j in range(i, rootj + 1) if nodes[j]["cls"] == "LoopA"]
                if las and rng.random() < .6:
                    nd["refs"]["back"] = rng.choice(las)
                    continue
            tg = [j for j in range(i, rootj + 1) if SUB in kinds[j] and not (j == rootj and nodes[j]["cls"] in TASKS)]
            if not tg:
                continue
            j = rng.choice(tg)
            slot = "nxt" if nd["cls"] == "LoopB" else rng.choice(["a", "items", "table"])
            if slot == "items":
                nd["refs"]["items"] = list(nd["refs"].get("items", [])) + [j]
            elif slot == "table":
                nd["refs"]["table"] = dict(nd["refs"].get("table", {}), **{rng.choice(KEYS): j})
            elif nd["cls"] in ("TaskNoGen", "TaskPlain") and slot == "a":
                nd["refs"]["a"] = j
            else:
                nd["refs"][slot] = j

    # pre-tasks
    lwj = [j for j, k in enumerate(kinds) if LWT in k]
    used_pre = set()
    for q in lwj:
        if rng.random() < .75:
            owners = [j for j in range(len(nodes)) if j != q and not (nodes[j]["submit"] and j != rootj and q > j)]
            for o in rng.sample(owners, min(len(owners), rng.choice([1, 1, 2]))):
                if rng.random() < .4:
                    o = rootj
                if o != q and q not in nodes[o]["pre"]:
                    nodes[o]["pre"].append(q)
                    used_pre.add(q)
    # init tasks of the root (never an object that is also a pre-task: separate family)
    if rcls in TASKS or nodes[rootj]["cls"] in TASKS:
        for j, k in enumerate(kinds[:-1]):
            if INIT in k and j not in used_pre and rng.random() < .5:
                nodes[rootj]["init"].append(j)
        rng.shuffle(nodes[rootj]["init"])
    # an init task of an inner task must not be a pre-task either
    for nd in nodes[:-1]:
        nd["init"] = [j for j in nd["init"] if j not in used_pre]

    spec = G(label, *nodes)
    return spec if well_formed(spec) else None


def handcrafted():
    """Small graphs that make sure every feature is present whatever the random draws"""
    import bounded.zoo_graphs as zoo

    C = zoo.Color
    out = []
    # scalars
    for k, (i, f, s, p) in enumerate(zip(INTS, FLOATS, STRS, PATHS + PATHS)):
        out.append(G(f"scalars{k}", N("Leaf", i=i, f=f, s=s, p=p, b=bool(k % 2), e=list(C)[k % 3], oi=[None, 0, 5][k % 3],
                                      li=LISTS[k % 4], ds=DICTS[k % 4], m=k, o=STRS[-k - 1], mp=[None, Path("/m")][k % 2])))
    out.append(G("defaults", N("Leaf", i=1)))
    out.append(G("genleaf", N("GenLeaf", i=1)))
    # sharing
    out.append(G("shared", N("Leaf", i=1), N("Node", refs={"r": 0, "a": 0, "items": [0, 0], "table": {"a": 0, "b": 0}, "anyc": 0, "ma": 0})))
    out.append(G("shared-deep", N("Leaf", i=1), N("Node", refs={"r": 0}), N("Node", refs={"r": 1, "a": 0, "items": [1, 0]})))
    out.append(G("shared-gen", N("GenLeaf", i=1), N("GenNode", refs={"a": 0, "items": [0]}),
                 N("TaskPlain", refs={"a": 1, "items": [1, 0], "table": {"a": 0}})))
    # cycles
    out.append(G("loop2", N("LoopB", refs={"back": 1}), N("LoopA", refs={"nxt": 0})))
    out.append(G("loop3", N("LoopB", refs={"nxt": 2}), N("LoopA", refs={"nxt": 0}), N("LoopB", refs={"back": 1}, k=1)))
    out.append(G("selfloop", N("Leaf", i=0), N("Node", refs={"r": 0, "a": 1})))
    out.append(G("selfloop-list", N("Leaf", i=0), N("Node", refs={"r": 0, "items": [1, 0, 1], "table": {"a": 1}})))
    out.append(G("loop-through-dict", N("Leaf", i=0), N("Node", refs={"r": 0, "table": {"b": 2}}), N("Node", refs={"r": 1, "items": [1]})))
    out.append(G("loop-task-root", N("Leaf", i=0), N("Node", refs={"r": 0, "a": 2}), N("Node", refs={"r": 1}),
                 N("TaskNoGen", refs={"a": 1, "items": [2]})))
    out.append(G("loop-gen", N("GenNode", refs={"a": 1}), N("GenNode", refs={"a": 0, "items": [0, 1]}), N("TaskPlain", refs={"a": 1})))
    # meta flags
    for k, (m1, m2) in enumerate([(True, None), (False, None), (None, True), (None, False), (True, False), (False, True)]):
        out.append(G(f"meta{k}", N("Leaf", i=1, meta=m1), N("Leaf", i=2, meta=m2),
                     N("Node", refs={"r": 0, "a": 1, "items": [0, 1], "table": {"a": 1}, "ma": 1, "anyc": 0})))
    out.append(G("meta-task", N("Leaf", i=1, meta=False), N("Leaf", i=2, meta=True), N("TaskNoGen", refs={"ma": 0, "items": [1, 0], "a": 1})))
    # pre-tasks: on the root, nested, shared, referring back to their owner, nested pre-tasks
    out.append(G("pre-root", N("Leaf", i=1), N("LW", k=1), N("Node", refs={"r": 0}, pre=[1])))
    out.append(G("pre-nested", N("LW", k=1, refs={"target": 1}), N("Leaf", i=1, pre=[0]), N("Node", refs={"r": 1})))
    out.append(G("pre-shared", N("LW", k=1), N("Leaf", i=1, pre=[0]), N("Leaf", i=2, pre=[0]), N("Node", refs={"r": 1, "a": 2}, pre=[0])))
    out.append(G("pre-of-pre", N("LW", k=1), N("LW", k=2, pre=[0]), N("Leaf", i=1, pre=[1]), N("TaskNoGen", refs={"a": 2}, pre=[1, 0])))
    out.append(G("pre-gen", N("LWGen", k=1), N("GenLeaf", i=1, pre=[0]), N("LWGen", k=2), N("TaskPlain", refs={"a": 1}, pre=[2])))
    out.append(G("pre-order", N("LW", k=1), N("LW", k=2), N("LW", k=3), N("Leaf", i=1, pre=[2, 0]), N("TaskNoGen", refs={"a": 3}, pre=[1])))
    # init tasks
    out.append(G("init", N("LW", k=1), N("LW", k=2), N("Leaf", i=1), N("TaskNoGen", refs={"a": 2}, init=[1, 0])))
    out.append(G("init-rev", N("LW", k=1), N("LW", k=2), N("Leaf", i=1), N("TaskNoGen", refs={"a": 2}, init=[0, 1])))
    out.append(G("init-and-pre", N("LW", k=1), N("LW", k=2, refs={"target": 2}), N("Leaf", i=1, pre=[1]), N("TaskNoGen", refs={"a": 2}, init=[0])))
    out.append(G("init-gen", N("LWGen", k=1), N("LWGen", k=2), N("TaskPlain", init=[0, 1], pre=[])))
    out.append(G("init-task", N("TaskNoGen", k=5, submit=True), N("LW", k=1), N("TaskNoGen", init=[0, 1])))
    out.append(G("init-with-pre", N("LW", k=9), N("LW", k=1, pre=[0]), N("TaskNoGen", init=[1])))
    # tasks and task outputs
    for k, t in enumerate(TASKS):
        out.append(G(f"task-root{k}", N("Leaf", i=k), N(t, refs={"a": 0}, k=k)))
        out.append(G(f"task-inner{k}", N("Leaf", i=k), N(t, refs={"a": 0}, k=k, submit=True), N("Node", refs={"r": 0, "anyc": 1})))
        out.append(G(f"task-chain{k}", N("Leaf", i=k), N(t, refs={"a": 0}, k=k, submit=True), N("TaskNoGen", refs={"a": 1})))
    out.append(G("task-out-shared", N("TaskOut", k=1, submit=True), N("Node", refs={"r": 0, "a": 0}), N("TaskNoGen", refs={"a": 0, "items": [1, 0]})))
    out.append(G("task-out-pre", N("TaskOutPre", k=2, submit=True), N("LW", k=3), N("TaskNoGen", refs={"a": 0, "items": [0]}, pre=[1])))
    out.append(G("task-inner-pre-init", N("LW", k=1), N("LW", k=2), N("Leaf", i=1, pre=[0]),
                 N("TaskOut", refs={"a": 2}, submit=True, init=[1]), N("TaskNoGen", refs={"a": 3})))
    out.append(G("two-inner", N("Leaf", i=1), N("TaskOut", k=1, refs={"a": 0}, submit=True), N("TaskNoGen", k=2, refs={"a": 1}, submit=True),
                 N("TaskOutPre", refs={"a": 2})))
    for s in out:
        assert well_formed(s), s["label"]
    return out


def gen_positions():
    """C17: a generated-path parameter at every kind of position"""
    out = []
    for k, t in enumerate(("TaskPlain", "TaskOutGen")):
        slot = "a"
        out.append(G(f"gen-top{k}", N(t)))
        out.append(G(f"gen-nested{k}", N("GenLeaf", i=1), N(t, refs={slot: 0})))
        out.append(G(f"gen-nested2-{k}", N("GenLeaf", i=1), N("GenNode", refs={"a": 0}), N(t, refs={slot: 1})))
        out.append(G(f"gen-list{k}", N("GenLeaf", i=1), N("GenLeaf", i=1), N("GenNode", refs={"items": [0, 1, 0]}), N(t, refs={slot: 2})))
        out.append(G(f"gen-dict{k}", N("GenLeaf", i=1), N("GenLeaf", i=1), N("GenNode", refs={"table": {"a": 0, "0": 1}, "items": [1]}), N(t, refs={slot: 2})))
        out.append(G(f"gen-same-names{k}", N("GenLeaf", i=1), N("GenLeaf", i=1), N("GenLeaf", i=1),
                     N("GenNode", refs={"a": 0, "items": [1], "table": {"a": 2}}), N(t, refs={slot: 3})))
        out.append(G(f"gen-equal-configs{k}", N("GenLeaf", i=1), N("GenLeaf", i=1), N("GenNode", refs={"items": [0, 1]}),
                     N("GenNode", refs={"items": [1, 0]}), N("GenNode", refs={"items": [2, 3]}), N(t, refs={slot: 4})))
    out.append(G("gen-task-lists", N("GenLeaf", i=1), N("GenNode", refs={"a": 0}), N("GenLeaf", i=2),
                 N("TaskPlain", refs={"a": 1, "items": [0, 2, 1], "table": {"a": 2, "items": 0, "0": 1}, "ma": 2})))
    out.append(G("gen-keys", N("GenLeaf", i=1), N("GenLeaf", i=2), N("GenLeaf", i=3),
                 N("TaskPlain", refs={"items": [0], "table": {"0": 1, "items": 2, "__pre_tasks__": 0}})))
    out.append(G("gen-pre-init", N("LWGen", k=1), N("LWGen", k=2), N("LWGen", k=3), N("GenLeaf", i=1, pre=[0]),
                 N("TaskPlain", refs={"a": 3}, pre=[1], init=[2])))
    out.append(G("gen-pre-shared", N("LWGen", k=1), N("GenLeaf", i=1, pre=[0]), N("GenLeaf", i=2, pre=[0]),
                 N("TaskPlain", refs={"items": [1, 2]}, pre=[0], init=[])))
    out.append(G("gen-meta", N("GenLeaf", i=1, meta=True), N("GenLeaf", i=1, meta=False), N("GenLeaf", i=1),
                 N("TaskPlain", refs={"items": [0, 1, 2], "ma": 1})))
    # dependencies on other tasks: the other task's own paths stay in its directory
    out.append(G("gen-dep-task", N("GenLeaf", i=1), N("TaskPlain", refs={"a": 0}, submit=True), N("GenLeaf", i=2),
                 N("TaskPlain", refs={"a": 1, "items": [2]})))
    out.append(G("gen-dep-output", N("TaskOutGen", k=3, submit=True), N("TaskPlain", refs={"a": 0, "items": [0]})))
    for s in out:
        assert well_formed(s), s["label"]
    return out


def gen_cross_task():
    """C17: a configuration with generated paths is a direct part of two tasks"""
    out = [
        G("xtask-shared-config", N("GenLeaf", i=1), N("TaskPlain", refs={"a": 0}, submit=True), N("TaskPlain", refs={"a": 0}, k=1)),
        G("xtask-shared-in-list", N("GenLeaf", i=1), N("GenNode", refs={"items": [0]}), N("TaskNoGen", refs={"items": [1]}, submit=True),
          N("TaskPlain", refs={"a": 1}, k=1)),
        G("xtask-output-two-consumers", N("TaskOutGen", k=1, submit=True), N("TaskNoGen", refs={"a": 0}, submit=True),
          N("TaskPlain", refs={"a": 0})),
        G("xtask-output-wraps-task-parameter", N("GenLeaf", i=1), N("TaskOutGen", refs={"a": 0}, submit=True),
          N("TaskPlain", refs={"a": 1, "items": [1]})),
        G("xtask-shared-pretask", N("LWGen", k=1), N("TaskNoGen", pre=[0], submit=True), N("TaskPlain", pre=[0], k=1)),
    ]
    for s in out:
        assert well_formed(s), s["label"]
    return out


def opt_defaults():
    """C12: optional parameters with a default that is not None, explicitly set to None (a value of its own: it is
    written as null and must not come back as the default), alone / nested / in lists and dicts / shared / in tasks"""
    import bounded.zoo_graphs as zoo

    names = list(OPT_PARAMS) + ["oe"]
    none_all = {n: None for n in names}
    out = [G("opt-all-none", N("OptLeaf", i=1, **none_all)),
           G("opt-defaults", N("OptLeaf", i=1)),
           G("opt-explicit-defaults", N("OptLeaf", i=1, oe=zoo.Color.GREEN, **{n: d for n, (d, _) in OPT_PARAMS.items()})),
           G("opt-others", N("OptLeaf", i=1, oe=zoo.Color.BLUE, **{n: o for n, (_, o) in OPT_PARAMS.items()}))]
    for n in names:
        out.append(G(f"opt-none-{n}", N("OptLeaf", i=1, **{n: None})))
    for k, n in enumerate(names):
        # one None among other values (default-equal and different ones)
        vals = {m: (None if m == n else OPT_PARAMS[m][(j + k) % 2]) for j, m in enumerate(OPT_PARAMS)}
        out.append(G(f"opt-mixed-{n}", N("OptLeaf", i=2, **vals)))
    out.append(G("opt-nested", N("OptLeaf", i=1, od=None), N("Node", refs={"r": 0})))
    out.append(G("opt-nested-optional-slot", N("OptLeaf", i=1, os=None, ol=None), N("Leaf", i=0), N("Node", refs={"r": 1, "a": 0, "anyc": 0, "ma": 0})))
    out.append(G("opt-list", N("OptLeaf", i=1, od=None), N("OptLeaf", i=1), N("OptLeaf", i=1, od=5),
                 N("Node", refs={"r": 0, "items": [0, 1, 2, 0]})))
    out.append(G("opt-dict", N("OptLeaf", i=1, op=None, odd=None), N("OptLeaf", i=1, **none_all), N("OptLeaf", i=1),
                 N("Node", refs={"r": 2, "table": {"a": 0, "b": 1, "0": 2}})))
    out.append(G("opt-shared-deep", N("OptLeaf", i=1, od=None, mo=None), N("Node", refs={"r": 0}), N("Node", refs={"r": 1, "a": 0, "items": [1, 0]})))
    out.append(G("opt-equal-but-none", N("OptLeaf", i=1, od=None), N("OptLeaf", i=1, od=10), N("Node", refs={"r": 0, "a": 1, "items": [1, 0]})))
    out.append(G("opt-nested-containers", N("OptLeaf", i=1, ob=None), N("OptLeaf", i=2, of=None), N("OptLeaf", i=3),
                 N("GenGrid", refs={"grid": [[0, 2], [1]], "groups": {"a": [0], "b": [2, 1]}, "rows": [{"a": 1}, {"a": 2}], "dd": {"a": {"0": 0}}})))
    out.append(G("opt-cycle", N("OptLeaf", i=1, oe=None), N("Node", refs={"r": 0, "a": 1, "items": [0, 1]})))
    out.append(G("opt-meta", N("OptLeaf", i=1, od=None, meta=True), N("OptLeaf", i=1, os=None, meta=False), N("Node", refs={"r": 0, "a": 1, "ma": 0})))
    out.append(G("opt-pretask", N("OptLeaf", i=1, od=None), N("LW", k=1, refs={"target": 0}), N("OptLeaf", i=2, oo=None, pre=[1]),
                 N("Node", refs={"r": 2})))
    out.append(G("opt-task-root", N("OptLeaf", i=1, od=None), N("OptLeaf", i=1, **none_all), N("TaskNoGen", refs={"a": 0, "items": [1, 0], "table": {"a": 1}, "ma": 0})))
    out.append(G("opt-task-root-gen", N("OptLeaf", i=1, ol=None), N("TaskPlain", refs={"a": 0, "items": [0]})))
    out.append(G("opt-task-inner", N("OptLeaf", i=1, od=None), N("TaskOut", refs={"a": 0}, submit=True), N("OptLeaf", i=2, os=None),
                 N("TaskNoGen", refs={"a": 1, "items": [2]})))
    out.append(G("opt-init", N("OptLeaf", i=1, od=None), N("LW", k=1, refs={"target": 0}), N("TaskNoGen", refs={"a": 0}, init=[1])))
    for s in out:
        assert well_formed(s), s["label"]
    return out


def gen_nested():
    """C17 (and C12): configurations with generated paths in containers nested directly in containers (list of lists,
    dict of lists, list of dicts, dict of dicts, three levels): the position includes every index / key on the way"""
    out = []
    for k, t in enumerate(("TaskGrid", "GenGrid")):
        def top(refs, _t=t, **kw):
            # the nested containers are parameters of the task itself / of a configuration nested in a task
            if _t == "TaskGrid":
                return [N("TaskGrid", refs=refs, **kw)]
            return [N("GenGrid", refs=refs), N("TaskPlain", refs={"a": 3}, **kw)]

        L = [N("GenLeaf", i=1), N("GenLeaf", i=2), N("GenLeaf", i=3)]
        out.append(G(f"nest-list-of-lists{k}", *L, *top({"grid": [[0, 1], [2]]})))
        out.append(G(f"nest-list-of-lists-square{k}", *L, *top({"grid": [[0, 1], [2, 0], [1, 2]]})))
        out.append(G(f"nest-dict-of-lists{k}", *L, *top({"groups": {"a": [0], "b": [1, 2]}})))
        out.append(G(f"nest-list-of-dicts{k}", *L, *top({"rows": [{"a": 0}, {"a": 1, "b": 2}]})))
        out.append(G(f"nest-dict-of-dicts{k}", *L, *top({"dd": {"a": {"a": 0, "0": 1}, "0": {"a": 2}}})))
        out.append(G(f"nest-equal-leaves{k}", N("GenLeaf", i=1), N("GenLeaf", i=1), N("GenLeaf", i=1),
                     *top({"grid": [[0], [1], [2]], "groups": {"a": [0], "b": [1], "0": [2]}})))
        out.append(G(f"nest-all{k}", *L, *top({"grid": [[0], [1]], "groups": {"0": [1], "1": [2]}, "rows": [{"0": 2}, {"0": 0}],
                                               "dd": {"0": {"0": 0}, "1": {"0": 1}}})))
        # inner nodes with their own generated path and their own containers
        out.append(G(f"nest-inner-nodes{k}", N("GenLeaf", i=1), N("GenNode", refs={"items": [0]}), N("GenNode", refs={"a": 0}),
                     *top({"grid": [[1], [2]], "rows": [{"a": 1}, {"a": 2}]})))
    # the names of flat parameters against positions of nested ones ("items"/0 and grid/0/...)
    out.append(G("nest-and-flat", N("GenLeaf", i=1), N("GenLeaf", i=2), N("GenLeaf", i=3), N("GenLeaf", i=4),
                 N("TaskGrid", refs={"a": 0, "items": [1], "grid": [[2], [3]]})))
    out.append(G("nest-cube", N("GenLeaf", i=1), N("GenLeaf", i=2), N("GenLeaf", i=3), N("GenLeaf", i=4),
                 N("GenGrid", refs={"cube": [[[0], [1]], [[2], [3]]]}), N("TaskPlain", refs={"a": 4})))
    out.append(G("nest-cube-ragged", N("GenLeaf", i=1), N("GenLeaf", i=2), N("GenLeaf", i=3),
                 N("GenGrid", refs={"cube": [[[0, 1]], [[2]]]}), N("TaskGrid", refs={"items": [3], "grid": [[3]]})))
    out.append(G("nest-grid-in-grid", N("GenLeaf", i=1), N("GenLeaf", i=2), N("GenGrid", refs={"grid": [[0], [1]]}), N("GenLeaf", i=3),
                 N("GenLeaf", i=4), N("GenGrid", refs={"grid": [[3], [4]]}), N("TaskGrid", refs={"grid": [[2], [5]], "groups": {"a": [2], "b": [5]}})))
    out.append(G("nest-config-root", N("GenLeaf", i=1), N("GenLeaf", i=2), N("GenLeaf", i=3),
                 N("GenGrid", refs={"grid": [[0], [1, 2]], "groups": {"a": [0], "b": [1]}})))
    out.append(G("nest-dep-task", N("GenLeaf", i=1), N("GenLeaf", i=2), N("TaskGrid", refs={"grid": [[0], [1]]}, submit=True),
                 N("GenLeaf", i=3), N("GenLeaf", i=4), N("TaskGrid", refs={"a": 2, "grid": [[3], [4]]}, k=1)))
    out.append(G("nest-pre", N("LWGen", k=1), N("LWGen", k=2), N("GenLeaf", i=1, pre=[0]), N("GenLeaf", i=2, pre=[1]),
                 N("TaskGrid", refs={"grid": [[2], [3]]})))
    for s in out:
        assert well_formed(s), s["label"]
    return out


def gen_shared_siblings():
    """C17: a configuration with generated paths that is reachable from two (or more) sibling arguments of one node (directly,
    through a list / dict / nested containers, or at different depths): the position it is sealed at, hence its path, must be a
    function of the configuration, not of the order in which the arguments were given"""
    out = []
    for k, t in enumerate(("TaskPlain", "TaskNoGen")):
        out.append(G(f"sib-a-items{k}", N("GenLeaf", i=1), N(t, refs={"a": 0, "items": [0]})))
        out.append(G(f"sib-items-table{k}", N("GenLeaf", i=1), N(t, refs={"items": [0], "table": {"x": 0}})))
        out.append(G(f"sib-a-ma{k}", N("GenLeaf", i=1), N(t, refs={"a": 0, "ma": 0})))
        out.append(G(f"sib-all{k}", N("GenLeaf", i=1), N("GenLeaf", i=2), N(t, refs={"a": 0, "items": [1, 0], "table": {"x": 1, "y": 0}, "ma": 1})))
        out.append(G(f"sib-inner{k}", N("GenLeaf", i=1), N("GenNode", refs={"a": 0, "items": [0], "table": {"a": 0}}), N(t, refs={"a": 1})))
        out.append(G(f"sib-depths{k}", N("GenLeaf", i=1), N("GenNode", refs={"a": 0}), N(t, refs={"a": 1, "items": [0]})))
        out.append(G(f"sib-depths-rev{k}", N("GenLeaf", i=1), N("GenNode", refs={"a": 0}), N(t, refs={"a": 0, "items": [1]})))
        out.append(G(f"sib-two-inner{k}", N("GenLeaf", i=1), N("GenNode", refs={"items": [0]}), N("GenNode", refs={"table": {"a": 0}}, k=1),
                     N(t, refs={"a": 1, "items": [2], "table": {"z": 0}})))
    out.append(G("sib-node", N("GenLeaf", i=1), N("Node", refs={"r": 0, "a": 0, "items": [0], "anyc": 0, "ma": 0}), N("TaskPlain", refs={"a": 1})))
    out.append(G("sib-node-late", N("GenLeaf", i=1), N("Node", refs={"r": 0, "a": 1, "anyc": 0}), N("TaskPlain", refs={"a": 1, "items": [0]})))
    out.append(G("sib-grid", N("GenLeaf", i=1), N("GenLeaf", i=2),
                 N("TaskGrid", refs={"a": 0, "items": [1, 0], "grid": [[0], [1]], "groups": {"a": [1]}, "rows": [{"a": 0}], "dd": {"a": {"a": 1}}})))
    out.append(G("sib-gengrid", N("GenLeaf", i=1), N("GenGrid", refs={"grid": [[0]], "groups": {"a": [0]}, "rows": [{"a": 0}], "dd": {"a": {"a": 0}},
                                                                       "cube": [[[0]]]}), N("TaskPlain", refs={"a": 1, "items": [0]})))
    out.append(G("sib-config-root", N("GenLeaf", i=1), N("GenNode", refs={"a": 0, "items": [0], "table": {"a": 0}})))
    out.append(G("sib-output", N("GenLeaf", i=1), N("TaskOutGen", refs={"a": 0}, submit=True), N("TaskPlain", refs={"a": 1, "items": [1], "table": {"a": 1}})))
    for s in out:
        assert well_formed(s), s["label"]
    return out


def dup_pretask():
    """C13: the same lightweight task is attached twice to one node (add_pretasks_from of two holders sharing it)"""
    out = [
        G("dup-pretask-root", N("LW", k=1), N("TaskNoGen", pre=[0, 0])),
        G("dup-pretask-nested", N("LW", k=1), N("Leaf", i=1, pre=[0, 0]), N("TaskNoGen", refs={"a": 1})),
        G("dup-pretask-two-kinds", N("LW", k=1), N("LW", k=2), N("TaskNoGen", pre=[0, 1, 0, 1])),
        G("dup-pretask-then-shared", N("LW", k=1), N("Leaf", i=1, pre=[0, 0]), N("TaskNoGen", refs={"a": 1}, pre=[0])),
        # two *distinct* pre-tasks that compare equal (same class, same values): both run
        G("equal-pretasks-root", N("LW", k=1), N("LW", k=1), N("TaskNoGen", pre=[0, 1])),
        G("equal-pretasks-nested", N("LW", k=1), N("LW", k=1), N("Leaf", i=1, pre=[0]), N("TaskNoGen", refs={"a": 2}, pre=[1])),
    ]
    for s in out:
        assert well_formed(s), s["label"]
    return out


def dual_use():
    """C13: one lightweight task object is pre-task and init task at once"""
    out = [
        G("dual-root", N("LW", k=1), N("TaskNoGen", pre=[0], init=[0])),
        G("dual-nested", N("LW", k=1), N("Leaf", i=1, pre=[0]), N("TaskNoGen", refs={"a": 1}, init=[0])),
    ]
    for s in out:
        assert well_formed(s), s["label"]
    return out


def enum_specs(tier, rng, n_quick, n_thorough, prefix="rand", **opts):
    seen = set()
    n = n_quick if tier == "quick" else n_thorough
    k = tries = 0
    while k < n and tries < 20 * n:
        tries += 1
        gen = opts.get("gen")
        if gen is None:
            gen = rng.random() < .4
        o = dict(opts, gen=gen)
        s = rand_spec(rng, f"{prefix}{k}", **o)
        if s is None:
            continue
        key = spec_key(s)
        if key in seen:
            continue
        seen.add(key)
        k += 1
        yield s


class Report:
    def __init__(self):
        self.cases = 0
        self.failures = []
        self.distinct = set()
        self._per_name = {}
        self.skipped = 0

    def build(self, spec, ses, seal_root, crash_name, tag=""):
        """Build the graph, or None (+ a failure unless the graph is one of those whose submission is known to
        recurse for ever: reported by run_c14 only)"""
        if crashing_submission(spec, seal_root) is not None:
            self.skipped += 1
            return None
        try:
            return build(spec, ses, seal_root)
        except BaseException as e:  # noqa
            if isinstance(e, (KeyboardInterrupt, SystemExit)):
                raise
            self.crash(crash_name, spec, e, tag)
            return None

    def check(self, ok, name, spec, extra="", **details):
        self.cases += 1
        if ok:
            return True
        if KNOWN.get(name):
            return False
        case = spec_case(spec, extra)
        n = self._per_name.get(name, 0)
        if n < 2 and not any(f["name"] == name and f["case"] == case for f in self.failures):
            self._per_name[name] = n + 1
            self.failures.append(dict(name=name, case=case, spec=spec_str(spec), **details))
        return False

    def crash(self, name, spec, exc, extra=""):
        import traceback

        tb = traceback.extract_tb(exc.__traceback__)
        if isinstance(exc, RecursionError):
            # the place of the overflow is arbitrary: report the functions that make up the recursion
            import collections

            common = collections.Counter((os.path.basename(f.filename), f.name) for f in tb).most_common(2)
            where = "recursion through " + ", ".join(f"{fn}:{name}" for (fn, name), _ in sorted(common))
        else:
            where = "; ".join(f"{os.path.basename(f.filename)}:{f.lineno}:{f.name}" for f in tb[-3:])
        self.check(False, name, spec, extra, error=repr(exc)[:300], where=where)

    def result(self, tool, bound):
        # at most 6, distinct names first
        first, rest, seen = [], [], set()
        for f in self.failures:
            (rest if f["name"] in seen else first).append(f)
            seen.add(f["name"])
        if self.skipped:
            bound += f"; {self.skipped} builds left out: submission walks into a cycle (RecursionError, reported by run_c14)"
        return dict(tool=tool, bound=bound, cases=self.cases, distinct=len(self.distinct), failures=(first + rest)[:6])


# --------------------------------------------------------------------------------------------------------------------
# C12 — saving and loading a configuration graph loses nothing


def _compare_loaded(rep, spec, tag, orig_roots, loaded_roots, check_ids=True):
    ca, cb = canon(orig_roots), canon(loaded_roots)
    d = first_diff(ca, cb)
    ok = rep.check(d is None, "C12 reloaded configuration graph differs from the saved one", spec, tag, route=tag, diff=d)
    if ok and check_ids:
        # same first-visit order on both sides: pair the nodes
        wa = [c for r in orig_roots for c in walk(r)]
        wb = [c for r in loaded_roots for c in walk(r)]
        bad = None
        for k, (x, y) in enumerate(zip(wa, wb)):
            ix, iy = ident(x), ident(y)
            if ix != iy:
                bad = dict(node=k, cls=_clsname(x), saved=ix, reloaded=iy, is_root=any(x is r for r in orig_roots))
                break
        rep.check(bad is None, "C12 identifier recomputed after reload differs", spec, tag, route=tag, **(bad or {}))


def _c12(tier, seed, ses):
    import bounded.zoo_graphs as zoo
    from experimaestro.core.context import SerializationContext
    from experimaestro.core.objects import ConfigInformation
    from experimaestro.core.serialization import state_dict, from_state_dict, save, load

    rng = random.Random(seed)
    rep = Report()
    specs = handcrafted() + gen_positions() + opt_defaults() + gen_nested() + list(enum_specs(tier, rng, 140, 1500))
    # optional parameters with non-None defaults set to None, containers nested in containers (drawn after the others)
    specs += list(enum_specs(tier, rng, 40, 500, prefix="randopt", opt=True))
    specs += list(enum_specs(tier, rng, 20, 250, prefix="randnest", opt=True, nested=True))
    for spec in specs:
        rep.distinct.add(spec_key(spec))
        for sealed in (False, True):
            tag = "/sealed" if sealed else "/raw"
            b = rep.build(spec, ses, sealed, "C12 graph could not be built", tag)
            if b is None:
                continue
            root = b.root
            try:
                # (a) params-file format
                objects = root.__xpm__.__get_objects__([], SerializationContext())
                defs = json.loads(json.dumps(objects))
                loaded = ConfigInformation.fromParameters(defs, as_instance=False, discard_id=True)
                _compare_loaded(rep, spec, tag + "/objects", [root], [loaded])

                # (b) state_dict / save
                others = [h for h in b.handles[:-1]][:2]
                for shape, value in (("single", root), ("list", [root] + others), ("dict", {"r": root, "o": others})):
                    data = json.loads(json.dumps(state_dict(SerializationContext(), value)))
                    back = from_state_dict(data)
                    d = first_diff(canon([value]), canon([back]))
                    rep.check(d is None, "C12 reloaded configuration graph differs from the saved one", spec,
                              f"{tag}/state_dict/{shape}", route="state_dict " + shape, diff=d)
                    if d is None and shape == "single":
                        _compare_loaded(rep, spec, tag + "/state_dict", [root], [back])
                        # second generation: the reloaded graph is itself a configuration graph, saving and reloading it
                        # must give the same graph again
                        data2 = json.loads(json.dumps(state_dict(SerializationContext(), back)))
                        back2 = from_state_dict(data2)
                        d2 = first_diff(canon([value]), canon([back2]))
                        rep.check(d2 is None, "C12 graph reloaded a second time differs from the saved one", spec,
                                  f"{tag}/state_dict/gen2", route="state_dict twice", diff=d2)
                        if d2 is None:
                            _compare_loaded(rep, spec, tag + "/state_dict/gen2", [root], [back2])
                sdir = ses.fresh_dir()
                sdir.mkdir(parents=True)
                save([root, {"k": root}], sdir)
                back = load(sdir)
                _compare_loaded(rep, spec, tag + "/save", [root], [back[0]])
                rep.check(back[1]["k"] is back[0], "C12 reloaded configuration graph differs from the saved one", spec,
                          tag + "/save/alias", route="save", diff="the two references to the root are two objects after load")

                # (c) runtime instances
                zoo.reset_log()
                inst = ConfigInformation.fromParameters(json.loads(json.dumps(objects)), as_instance=True)
                d = first_diff(_strip(canon([root], pre=False, init=False, task=False, meta=False)), _strip(canon_inst([inst])))
                rep.check(d is None, "C12 runtime instance loaded from the saved graph sees other values", spec, tag + "/instance",
                          route="fromParameters(as_instance=True)", diff=d)
                zoo.reset_log()
                inst = from_state_dict(json.loads(json.dumps(state_dict(SerializationContext(), root))), as_instance=True)
                d = first_diff(_strip(canon([root], pre=False, init=False, task=False, meta=False)), _strip(canon_inst([inst])))
                rep.check(d is None, "C12 runtime instance loaded from the saved graph sees other values", spec,
                          tag + "/state_dict/instance", route="from_state_dict(as_instance=True)", diff=d)
            except Exception as e:  # noqa
                rep.crash("C12 save/load raises", spec, e, tag)
    zoo.reset_log()
    return rep.result("cpython: real __get_objects__/json/fromParameters, state_dict/from_state_dict, save/load on enumerated graphs",
                      "graphs of <= 8 nodes over 16 zoo classes (sharing, cycles, meta flags, pre/init tasks, task outputs, optional "
                      "parameters with non-None defaults set to None, containers nested in containers); no dict key 'type'; raw and "
                      "sealed/submitted")


def _strip(c):
    for rec in c["nodes"]:
        rec.pop("config", None)
    return c


# --------------------------------------------------------------------------------------------------------------------
# C13 — runtime objects mirror the configuration graph and are initialised once


def _same(rv, v, m):
    """runtime value rv mirrors the configured value v under the mapping m: id(config) -> instance"""
    if _is_config(v):
        return rv is m.get(id(v), object())
    if isinstance(v, list):
        return isinstance(rv, list) and len(rv) == len(v) and all(_same(x, y, m) for x, y in zip(rv, v))
    if isinstance(v, dict):
        return isinstance(rv, dict) and list(rv.keys()) == list(v.keys()) and all(_same(rv[k], v[k], m) for k in v)
    return type(rv) is type(v) and (rv == v or (rv != rv and v != v))


def _check_runtime(rep, spec, tag, configs, m, root, root_inst, pre_set, init_list, check_init, pre_once=True):
    """configs: the configurations that must have a runtime object; m: id(config) -> instance"""
    import bounded.zoo_graphs as zoo
    from experimaestro.core.objects import TypeConfig

    N1 = "C13 runtime objects do not mirror the configuration graph"
    log = list(zoo.LOG)
    # one object per configuration
    missing = [k for k, c in enumerate(configs) if id(c) not in m]
    rep.check(not missing, N1, spec, tag, route=tag, problem="no runtime object for configurations", nodes=missing[:4])
    insts = [m[id(c)] for c in configs if id(c) in m]
    rep.check(len({id(o) for o in insts}) == len(insts), N1, spec, tag, route=tag, problem="two configurations share one runtime object")
    rep.check(root_inst is m.get(id(root)), N1, spec, tag, route=tag, problem="returned object is not the root's runtime object")
    bad = None
    for k, c in enumerate(configs):
        o = m.get(id(c))
        if o is None:
            continue
        if isinstance(o, TypeConfig) or _clsname(o) != _clsname(c):
            bad = dict(node=k, problem="wrong class", cls=_clsname(c), got=type(o).__qualname__)
            break
        for arg, v in c.__xpm__.xpmvalues():
            rv = o.__dict__.get(arg.name, zoo.MISSING)
            if rv is zoo.MISSING or not _same(rv, v, m):
                bad = dict(node=k, problem="attribute does not mirror the parameter", cls=_clsname(c), param=arg.name,
                           got=repr(rv)[:120])
                break
        if bad:
            break
    rep.check(bad is None, N1, spec, tag, route=tag, **(bad or {}))

    # no other zoo object was created
    created = [e[1] for e in log if e[0] == "post_init"]
    known = {id(o) for o in insts}
    extra = [type(o).__qualname__ for o in created if id(o) not in known]
    rep.check(not extra, N1, spec, tag, route=tag, problem="runtime objects without configuration were initialised", classes=extra[:4])

    # __post_init__ exactly once, after all parameters
    bad = None
    for k, c in enumerate(configs):
        o = m.get(id(c))
        if o is None:
            continue
        snaps = [e[2] for e in log if e[0] == "post_init" and e[1] is o]
        if len(snaps) != 1:
            bad = dict(node=k, cls=_clsname(c), problem=f"__post_init__ called {len(snaps)} times")
            break
        for arg, _ in c.__xpm__.xpmvalues():
            if snaps[0].get(arg.name, zoo.MISSING) is not o.__dict__.get(arg.name, zoo.MISSING):
                bad = dict(node=k, cls=_clsname(c), param=arg.name, problem="parameter not (yet) set when __post_init__ ran",
                           seen=repr(snaps[0].get(arg.name))[:80])
                break
        if bad:
            break
    rep.check(bad is None, "C13 __post_init__ not called exactly once after all parameters are set", spec, tag, route=tag, **(bad or {}))

    # execute: each pre-task once, (params route) each init task once, after all pre-tasks
    execs = [e[1] for e in log if e[0] == "execute"]
    pre_objs = [m[i] for i in pre_set if i in m]
    init_objs = [m[id(c)] for c in init_list if id(c) in m]
    dual = [o for o in init_objs if any(o is p for p in pre_objs)] if check_init else []
    bad = None
    for o in (pre_objs if pre_once else []):
        n = sum(1 for x in execs if x is o)
        if any(o is x for x in dual):
            continue
        if n != 1:
            bad = dict(problem=f"pre-task executed {n} times", cls=type(o).__qualname__, k=getattr(o, "k", None))
            break
    rep.check(bad is None, "C13 pre-task not executed exactly once", spec, tag, route=tag, **(bad or {}))
    if check_init:
        bad = None
        for o in init_objs:
            if any(o is x for x in dual):
                continue
            n = sum(1 for x in execs if x is o)
            if n != 1:
                bad = dict(problem=f"init task executed {n} times", cls=type(o).__qualname__, k=getattr(o, "k", None))
                break
        if bad is None and not dual:
            # order: all pre-tasks, then the init tasks in their order
            tail = execs[len(execs) - len(init_objs):] if init_objs else []
            if len(tail) != len(init_objs) or any(x is not y for x, y in zip(tail, init_objs)):
                bad = dict(problem="init tasks are not the last executions, in their given order",
                           order=[f"{type(x).__qualname__}(k={getattr(x, 'k', None)})" for x in execs][:8])
        rep.check(bad is None, "C13 init task not executed exactly once after all pre-tasks", spec, tag, route=tag, **(bad or {}))
        for o in dual:
            n = sum(1 for x in execs if x is o)
            rep.check(n == 1, "C13 a lightweight task used both as pre-task and as init task is executed twice", spec, tag,
                      route=tag, executed=n, cls=type(o).__qualname__)
    allowed = {id(o) for o in pre_objs} | ({id(o) for o in init_objs} if check_init else set())
    stray = [type(x).__qualname__ for x in execs if id(x) not in allowed]
    rep.check(not stray, "C13 an object that is neither pre-task nor init task was executed", spec, tag, route=tag, classes=stray[:4])


def _store_plans(spec):
    """Sequences of roots converted one after the other with the same ObjectStore: node indexes (-1 = the root of the spec).
    The same root twice; a sub-graph first, then the whole graph (the two graphs share the sub-graph); the whole graph first,
    then a sub-graph of it; two sub-graphs, then the whole graph."""
    n = len(spec["nodes"])
    plans = [(-1, -1)]
    inner = list(range(n - 1))
    # at most 3 inner nodes: the first, the last, and one that is referred to more than once (if any)
    count = {}
    for nd in spec["nodes"]:
        for ref in nd["refs"].values():
            for t in targets(ref):
                count[t] = count.get(t, 0) + 1
    shared = [j for j in inner if count.get(j, 0) > 1]
    chosen = []
    for j in (inner[:1] + shared[:1] + inner[-1:]):
        if j not in chosen:
            chosen.append(j)
    for j in chosen:
        plans.append((j, -1))
        plans.append((-1, j))
    if len(chosen) >= 2:
        plans.append((chosen[0], chosen[-1], -1, chosen[0]))
    return plans


def _c13_shared_store(rep, spec, ses, sealed, plan):
    """One ObjectStore, several conversions: every configuration still has exactly one runtime object, initialised exactly
    once (over ALL the conversions), and every conversion returns the object of its root (the same one when asked again)."""
    import bounded.zoo_graphs as zoo
    from experimaestro.core.objects import ObjectStore
    from experimaestro.xpmutils import DirectoryContext

    N1 = "C13 runtime objects do not mirror the configuration graph"
    tag = "/instance()" + ("/submitted" if sealed else "") + "/one-store:" + ">".join("root" if j < 0 else str(j) for j in plan)
    b = rep.build(spec, ses, sealed, "C13 graph could not be built", tag)
    if b is None:
        return
    try:
        roots = [b.root if j < 0 else b.handles[j] for j in plan]
        if not all(_is_config(r) for r in roots):
            return
        store = ObjectStore()
        zoo.reset_log()
        insts, marks = [], []
        for r in roots:
            if r.__xpm__._sealed or not has_generators(spec):
                insts.append(r.instance(objects=store))
            else:
                insts.append(r.instance(DirectoryContext(ses.fresh_dir()), objects=store))
            marks.append(len(zoo.LOG))
        m = dict(store.store)
        configs, seen = [], set()
        for r in roots:
            for c in walk(r, task=False):
                if id(c) not in seen:
                    seen.add(id(c))
                    configs.append(c)
        for k, (r, o) in enumerate(zip(roots, insts)):
            rep.check(o is m.get(id(r)), N1, spec, tag, route=tag, problem=f"conversion {k} did not return the runtime object of its root")
            first = next(i for i, r0 in enumerate(roots) if r0 is r)
            rep.check(o is insts[first], N1, spec, tag, route=tag,
                      problem=f"conversions {first} and {k} of the same configuration with one object store returned two objects")
            if first != k:
                again = [e[0] + ":" + type(e[1]).__qualname__ for e in zoo.LOG[marks[k - 1]:marks[k]]]
                rep.check(not again, "C13 converting an already converted configuration again (same object store) initialises or executes objects again",
                          spec, tag, route=tag, calls=again[:6])
        pre_set = {id(p) for c in configs for p in c.__xpm__.pre_tasks}
        # NOT CHECKED HERE (fails on the unchanged tree, reported, not a recorded finding): "every pre-task runs exactly once over
        # all the conversions made with one object store".  FromPython gathers the pre-tasks of every configuration it constructs
        # in *this* conversion and fromConfig executes them all: a pre-task object attached to a configuration constructed by the
        # first conversion and to another one constructed by the second conversion is executed by both (witness: spec pre-shared
        # "0:LW(k=1); 1:Leaf(i=1) pre=[0]; 2:Leaf(i=2) pre=[0]; 3:Node{r->1,a->2} pre=[0]", conversions of node 2 then of the root
        # with one ObjectStore: LW executed 2 times on the same runtime object).  To switch the strict oracle on, drop pre_once=False:
        #     _check_runtime(rep, spec, tag, configs, m, roots[-1], insts[-1], pre_set, [], False)
        _check_runtime(rep, spec, tag, configs, m, roots[-1], insts[-1], pre_set, [], False, pre_once=False)
        # what is checked instead: at most once per conversion, at least once overall, and exactly once when all the
        # configurations a pre-task is attached to were constructed by one and the same conversion
        segs = [zoo.LOG[(marks[k - 1] if k else 0):marks[k]] for k in range(len(roots))]
        bad = None
        for pid in pre_set:
            o = m.get(pid)
            if o is None:
                continue
            per = [sum(1 for e in seg if e[0] == "execute" and e[1] is o) for seg in segs]
            owners = [m.get(id(c)) for c in configs if any(id(p) == pid for p in c.__xpm__.pre_tasks)]
            built_in = {k for k, seg in enumerate(segs) for e in seg if e[0] == "post_init" and any(e[1] is w for w in owners)}
            if max(per) > 1 or sum(per) < 1 or (len(built_in) <= 1 and sum(per) != 1):
                bad = dict(problem=f"pre-task executed {per} times (per conversion)", cls=type(o).__qualname__, k=getattr(o, "k", None),
                           owners_constructed_in_conversions=sorted(built_in))
                break
        rep.check(bad is None, "C13 pre-task not executed exactly once", spec, tag, route=tag, **(bad or {}))
    except Exception as e:  # noqa
        rep.crash("C13 instance() raises", spec, e, tag)


def _c13(tier, seed, ses):
    import bounded.zoo_graphs as zoo
    from experimaestro.core.context import SerializationContext
    from experimaestro.core.objects import ConfigInformation, ObjectStore
    from experimaestro.xpmutils import DirectoryContext

    rng = random.Random(seed)
    rep = Report()
    specs = handcrafted() + gen_positions() + dual_use() + dup_pretask() + list(enum_specs(tier, rng, 200, 2500))
    for spec in specs:
        rep.distinct.add(spec_key(spec))
        is_task = spec["nodes"][-1]["cls"] in TASKS
        # --- route 1: instance()
        for sealed in ((False, True) if is_task else (False,)):
            tag = "/instance()" + ("/submitted" if sealed else "")
            b = rep.build(spec, ses, sealed, "C13 graph could not be built", tag)
            if b is None:
                continue
            try:
                root = b.root
                store = ObjectStore()
                zoo.reset_log()
                if sealed or not has_generators(spec):
                    inst = root.instance(objects=store)
                else:
                    inst = root.instance(DirectoryContext(ses.fresh_dir()), objects=store)
                configs = walk(root, task=False)
                pre_set = {id(p) for c in configs for p in c.__xpm__.pre_tasks}
                _check_runtime(rep, spec, tag, configs, dict(store.store), root, inst, pre_set, [], False)
            except Exception as e:  # noqa
                rep.crash("C13 instance() raises", spec, e, tag)
        # --- route 1b: several instance(objects=store) conversions sharing ONE ObjectStore
        for sealed in ((False, True) if is_task else (False,)):
            for plan in _store_plans(spec):
                _c13_shared_store(rep, spec, ses, sealed, plan)
        # --- route 2: params file
        tag = "/params"
        captured = {}
        orig = ConfigInformation.__dict__["load_objects"]

        def spy(*args, __orig=orig.__func__, **kwargs):
            r = __orig(*args, **kwargs)
            captured["objects"] = r
            return r

        b = rep.build(spec, ses, is_task or has_generators(spec), "C13 graph could not be built", tag)
        if b is None:
            continue
        try:
            root = b.root
            defs = json.loads(json.dumps(root.__xpm__.__get_objects__([], SerializationContext())))
            zoo.reset_log()
            ConfigInformation.load_objects = staticmethod(spy)  # observation only: records the id -> object table
            try:
                inst = ConfigInformation.fromParameters(defs, as_instance=True)
            finally:
                ConfigInformation.load_objects = orig
            configs = walk(root)
            rep.check(len(defs) == len(configs), "C13 runtime objects do not mirror the configuration graph", spec, tag,
                      route=tag, problem=f"{len(defs)} definitions for {len(configs)} configurations")
            pre_set = {id(p) for c in configs for p in c.__xpm__.pre_tasks}
            _check_runtime(rep, spec, tag, configs, dict(captured.get("objects", {})), root, inst, pre_set,
                           list(root.__xpm__.init_tasks), True)
        except Exception as e:  # noqa
            rep.crash("C13 loading the parameters as instances raises", spec, e, tag)
    zoo.reset_log()
    return rep.result("cpython: real instance() and fromParameters(as_instance=True) on enumerated graphs with call-recording classes",
                      "graphs of <= 8 nodes over 13 zoo classes (sharing, cycles, nested/shared pre-tasks, init tasks, task outputs); "
                      "direct route also with ONE ObjectStore shared by 2-4 conversions (same root twice, a sub-graph then the whole "
                      "graph, the whole graph then a sub-graph, two sub-graphs then the whole graph): one object per configuration, "
                      "__post_init__ once over all conversions, same object returned again")


# --------------------------------------------------------------------------------------------------------------------
# C14 — submitted configurations are frozen


def _shallow_copy(c):
    new = c.__class__()
    for name, value in c.__xpm__.values.items():
        new.__xpm__.set(name, value, True)
    return new


def _fresh(basetype):
    import bounded.zoo_graphs as zoo

    if basetype is zoo.LoopB:
        return zoo.LoopB(k=77)
    if basetype is zoo.LoopA:
        return zoo.LoopA(nxt=zoo.LoopB(k=78))
    return zoo.Leaf(i=99)


def _attempts(arg, cur):
    """(kind, value) assignments to try on a frozen configuration"""
    from experimaestro.core import types as T

    t = arg.type
    out = []
    # equal value
    if isinstance(cur, list):
        out.append(("equal", list(cur)))
    elif isinstance(cur, dict):
        out.append(("equal", dict(cur)))
    else:
        out.append(("equal", cur))
    if cur is not None and not arg.required:
        out.append(("none", None))
    # different value
    if isinstance(t, T.BoolType):
        out.append(("different", not cur))
    elif isinstance(t, T.IntType):
        out.append(("different", (cur or 0) + 1 if (cur or 0) < 2**40 else 0))
    elif isinstance(t, T.FloatType):
        out.append(("different", 3.5 if cur != 3.5 else 4.5))
    elif isinstance(t, T.StrType):
        out.append(("different", (cur or "") + "x"))
    elif isinstance(t, T.PathType):
        out.append(("different", Path("/other") if cur is None else Path(str(cur) + "x")))
    elif isinstance(t, T.EnumType):
        out.append(("different", [e for e in t.type if e is not cur][0]))
    elif isinstance(t, T.ArrayType):
        el = 9 if isinstance(t.type, T.IntType) else _fresh(getattr(t.type, "basetype", None))
        out.append(("different", list(cur or []) + [el]))
        if cur:
            out.append(("different", list(cur)[:-1]))
            if _is_config(cur[0]):
                out.append(("equal-distinct", [_shallow_copy(x) for x in cur]))
    elif isinstance(t, T.DictType):
        el = 9 if isinstance(t.valuetype, T.IntType) else _fresh(getattr(t.valuetype, "basetype", None))
        out.append(("different", dict(cur or {}, zz=el)))
        if cur and _is_config(next(iter(cur.values()))):
            out.append(("equal-distinct", {k: _shallow_copy(x) for k, x in cur.items()}))
    elif isinstance(t, T.ObjectType):
        out.append(("different", _fresh(t.basetype)))
        if _is_config(cur):
            out.append(("equal-distinct", _shallow_copy(cur)))
    return out


def _frozen_checks(rep, spec, nodes, extra=""):
    """Every listed configuration is sealed and rejects every assignment, meta flag change and new pre-task"""
    import bounded.zoo_graphs as zoo
    from experimaestro import setmeta

    for k, c in enumerate(nodes):
        info = c.__xpm__
        where = dict(node=k, cls=_clsname(c))
        rep.check(info._sealed, "C14 a configuration reachable from a submitted task is not sealed", spec, extra, **where)
        for arg in list(info.xpmtype.arguments.values()):
            cur = info.values.get(arg.name)
            for kind, value in _attempts(arg, cur):
                raised = False
                try:
                    setattr(c, arg.name, value)
                except Exception:  # noqa
                    raised = True
                rep.check(raised, "C14 assigning a parameter of a frozen configuration does not raise", spec, extra,
                          param=arg.name, assigned=kind, **where)
                rep.check(info.values.get(arg.name) is cur, "C14 assigning a parameter of a frozen configuration changes it",
                          spec, extra, param=arg.name, assigned=kind, **where)
        for flag in (True, False):
            raised, m0 = False, info.meta
            try:
                setmeta(c, flag)
            except BaseException:  # noqa (AssertionError)
                raised = True
            rep.check(raised and info.meta is m0, "C14 setmeta on a frozen configuration does not raise", spec, extra, flag=flag, **where)
        raised, n0 = False, len(info.pre_tasks)
        try:
            c.add_pretasks(zoo.LW(k=55))
        except Exception:  # noqa
            raised = True
        rep.check(raised and len(info.pre_tasks) == n0, "C14 add_pretasks on a frozen configuration does not raise", spec, extra, **where)


def _c14(tier, seed, ses):
    import bounded.zoo_graphs as zoo
    from experimaestro import setmeta

    rng = random.Random(seed)
    rep = Report()
    specs = handcrafted() + gen_positions() + gen_cross_task() + list(enum_specs(tier, rng, 120, 1200))
    tried_cyclic = 0
    for spec in specs:
        rep.distinct.add(spec_key(spec))
        j = crashing_submission(spec, True)
        if j is not None:
            # predicted: the submission of task j never returns normally. Tried for real on the first few graphs
            if KNOWN.get(CYCLIC_SUBMIT) or tried_cyclic >= 3:
                rep.skipped += 1
                continue
            tried_cyclic += 1
            try:
                build(spec, ses, True)
                rep.skipped += 1  # prediction wrong: nothing to report (and nothing checked)
            except RecursionError as e:
                rep.crash(CYCLIC_SUBMIT, spec, e)
            except Exception as e:  # noqa
                rep.crash("C14 graph could not be built/submitted", spec, e)
            continue
        b = rep.build(spec, ses, True, "C14 graph could not be built/submitted")
        if b is None:
            continue
        try:
            root = b.root
            nodes = walk(root)
            before = canon([root])
            # reference identifiers: those of an equal graph that nobody tries to modify (identifiers of sealed
            # configurations are cached: comparing before/after on the same objects would not say much)
            ref = walk(build(spec, ses, True).root)
            ref_ids = [ident(c) for c in ref]
            root_id = ident(root)
            rel = [str(c.__xpm__.job.relpath) if hasattr(c.__xpm__.job, "relpath") else None for c in nodes]
            _frozen_checks(rep, spec, nodes)
            d = first_diff(before, canon([root]))
            rep.check(d is None, "C14 the frozen graph changed", spec, diff=d)
            ids2 = [ident(c) for c in nodes]  # first computation for the inner nodes: uses the current values
            rel2 = [str(c.__xpm__.job.relpath) if hasattr(c.__xpm__.job, "relpath") else None for c in nodes]
            bad = [k for k in range(len(nodes)) if k >= len(ref_ids) or ref_ids[k] != ids2[k]] + ([0] if ident(root) != root_id else [])
            rep.check(not bad and len(ref_ids) == len(ids2), "C14 identifier changed after attempts to modify a frozen configuration",
                      spec, nodes=bad[:4])
            bad = [k for k in range(len(nodes)) if rel[k] != rel2[k]]
            rep.check(not bad, "C14 job path changed after attempts to modify a frozen configuration", spec, nodes=bad[:4])
        except Exception as e:  # noqa
            rep.crash("C14 check raises", spec, e)
    return rep.result("cpython: real submit(DRY_RUN)/seal, then every assignment / setmeta / add_pretasks on every reachable configuration",
                      "graphs of <= 8 nodes over 16 zoo classes; per parameter: equal, different, None, equal-but-distinct values")


# C14, second part: duplicate submissions.  The scheduler recognises a job whose identifier is already registered in the
# experiment only in NORMAL run mode: these cases run a real experiment (tiny jobs) in a subprocess of their own
# (`_c14_dup_main`; the dry-run experiment of the Session and a real one do not live together in one process).  A task graph
# is submitted for real; then an *equal* graph is submitted again (all its tasks are duplicates: submit() hands back what
# the first submission returned, so the second graph refers to the tasks of the first one), with or without sharing the
# plain configurations / everything but the root with the first graph.  Afterwards everything reachable from either graph
# must still be frozen, with the identifiers and job paths it had.

DUP_MARK = "@@C14-DUP@@ "
DUP_QUICK = (
    [f"task-chain{k}" for k in range(len(TASKS))] + [f"task-root{k}" for k in range(len(TASKS))]
    + ["task-out-shared", "task-out-pre", "task-inner-pre-init", "two-inner", "shared-gen", "meta-task", "pre-of-pre", "init-and-pre",
       "init-task", "loop-task-root", "gen-task-lists", "gen-pre-init", "gen-dep-task", "gen-dep-output", "xtask-shared-config",
       "xtask-output-two-consumers", "xtask-output-wraps-task-parameter", "xtask-shared-pretask", "nest-dep-task"]
)
DUP_NOT_EXERCISED = "C14 no duplicate submission was recognised by the scheduler (nothing checked)"


def dup_specs(tier, seed):
    pool = handcrafted() + gen_positions() + gen_cross_task() + gen_nested()
    if tier == "quick":
        pool = [s for s in pool if s["label"] in DUP_QUICK]
    else:
        pool += list(enum_specs(tier, random.Random(seed), 0, 80, prefix="randdup", root="task"))
    # an upstream submitted task as parameter first (failures of the first cases are the ones reported)
    pool.sort(key=lambda s: DUP_QUICK.index(s["label"]) if s["label"] in DUP_QUICK else len(DUP_QUICK))
    return [s for s in pool if s["nodes"][-1]["cls"] in TASKS and crashing_submission(s, True) is None]


def _salt(spec, n):
    """Copy of the spec in which every task has a value of k of its own: jobs of different cases never share an identifier"""
    import copy

    s = copy.deepcopy(spec)
    for j, nd in enumerate(s["nodes"]):
        if nd["cls"] in TASKS:
            nd["vals"]["k"] = 1000 * (n + 1) + j
    return s


def _dup_variants(spec):
    """(name, indexes of the nodes that the second graph shares with the first one)"""
    nodes = spec["nodes"]
    root = len(nodes) - 1
    out = [("fresh", frozenset())]
    back = any(root in targets(ref) for nd in nodes[:-1] for ref in nd["refs"].values()) or any(root in nd["pre"] for nd in nodes[:-1])
    if root > 0 and not back:
        configs = frozenset(j for j in range(root) if nodes[j]["cls"] not in TASKS)
        if configs and len(configs) < root:
            out.append(("shared-configs", configs))
        out.append(("shared-all", frozenset(range(root))))
    return out


def _union(*walks):
    seen, out = set(), []
    for w in walks:
        for c in w:
            if id(c) not in seen:
                seen.add(id(c))
                out.append(c)
    return out


def _relpaths(nodes):
    return [str(c.__xpm__.job.relpath) if hasattr(c.__xpm__.job, "relpath") else None for c in nodes]


def _c14_dup(tier, seed, ses):
    from experimaestro import RunMode

    rep = Report()
    exercised = not_dup = 0
    N_ID = "C14 identifier changed after attempts to modify a frozen configuration"
    for n, spec0 in enumerate(dup_specs(tier, seed)):
        spec = _salt(spec0, n)
        rep.distinct.add(spec_key(spec0))
        try:
            refb = build(spec, ses, True)  # equal graph, dry run, never touched
            ref_ids = [ident(c) for c in walk(refb.root)]
            ref_by_index = [(ident(o), ident(h)) for o, h in zip(refb.objs, refb.handles)]
            b1 = build(spec, ses, True, run_mode=RunMode.NORMAL)
            nodes1 = walk(b1.root)
            ids1, rel1, before = [ident(c) for c in nodes1], _relpaths(nodes1), canon([b1.root])
        except Exception as e:  # noqa
            rep.crash("C14 graph could not be built/submitted", spec, e, "/dup/first")
            continue
        rep.check(ids1 == ref_ids, "C14 identifiers of a submitted graph differ from those of an equal graph (dry run)", spec, "/dup/first")
        for variant, share in _dup_variants(spec):
            tag = "/dup/" + variant
            try:
                b2 = build(spec, ses, True, run_mode=RunMode.NORMAL, first=b1, share=share)
            except Exception as e:  # noqa
                rep.crash("C14 duplicate submission raises", spec, e, tag)
                continue
            if b2.out is not b1.out:
                not_dup += 1  # not a duplicate for the scheduler (e.g. the first job already failed): nothing to check
                continue
            exercised += 1
            try:
                dups = [walk(o) for j, o in enumerate(b2.objs) if j not in share and spec["nodes"][j]["cls"] in TASKS]
                nodes2 = walk(b2.root)
                # what the first submission froze (also reachable from the duplicate when shared), then the rest
                _frozen_checks(rep, spec, nodes1, tag + "/first-graph")
                mine = {id(c) for c in nodes1}
                _frozen_checks(rep, spec, [c for c in _union(nodes2, *dups) if id(c) not in mine], tag + "/duplicate-graph")
                d = first_diff(before, canon([b1.root]))
                rep.check(d is None, "C14 the frozen graph changed", spec, tag, diff=d)
                ids = [ident(c) for c in nodes1]
                bad = [k for k in range(len(nodes1)) if ids[k] != ids1[k] or k >= len(ref_ids) or ids[k] != ref_ids[k]]
                rep.check(not bad, N_ID, spec, tag, graph="first submission", nodes=bad[:4])
                # (the duplicate graph need not have the sharing pattern of the spec: it refers to tasks of the first graph,
                # which keep their own parameters; its nodes are compared spec index by spec index)
                bad = [j for j, (o, h) in enumerate(zip(b2.objs, b2.handles)) if (ident(o), ident(h)) != ref_by_index[j]]
                rep.check(not bad, N_ID, spec, tag, graph="duplicate", spec_nodes=bad[:4])
                rel = _relpaths(nodes1)
                bad = [k for k in range(len(nodes1)) if rel[k] != rel1[k]]
                rep.check(not bad, "C14 job path changed after attempts to modify a frozen configuration", spec, tag, nodes=bad[:4])
            except Exception as e:  # noqa
                rep.crash("C14 check raises", spec, e, tag)
    if not exercised:
        rep.check(False, DUP_NOT_EXERCISED, G("none"))
    res = rep.result("cpython: real experiment in NORMAL run mode (subprocess, tiny jobs): a task graph is submitted, then an equal graph "
                     "(duplicate jobs) is submitted; every assignment / setmeta / add_pretasks on everything reachable from both",
                     f"{exercised} duplicate submissions: equal graph built afresh / sharing its plain configurations / sharing all but "
                     "the root with the first graph")
    if not_dup:
        res["bound"] += f" ({not_dup} left out: submissions that the scheduler did not treat as duplicates)"
    return res


def _c14_dup_main(argv):
    """Subprocess side: argv = [tier, seed, temporary directory (owned by the caller)]"""
    import sys

    from experimaestro import experiment
    from experimaestro.scheduler import FailedExperiment

    tier, seed, tmp = argv[0], int(argv[1]), Path(argv[2])
    logging.disable(logging.CRITICAL)

    class Ses:
        counter = 0

        def fresh_dir(self):
            self.counter += 1
            return tmp / "ctx" / str(self.counter)

    with open(os.devnull, "w") as null, contextlib.redirect_stderr(null):
        try:
            with experiment(tmp / "ws", "dup", port=-1) as xp:
                xp.setenv("PYTHONPATH", _pythonpath())
                res = _c14_dup(tier, seed, Ses())
                sys.stdout.write("\n" + DUP_MARK + json.dumps(res, default=str) + "\n")
                sys.stdout.flush()
        except FailedExperiment:
            pass  # a failed job does not matter here


def _pythonpath():
    import experimaestro

    return f"{Path(experimaestro.__file__).resolve().parents[1]}:{Path(__file__).resolve().parents[1]}"


def _dup_start(tier, seed):
    import subprocess
    import sys

    tmp = tempfile.mkdtemp(prefix="xpm-bounded-dup-")
    env = dict(os.environ, PYTHONPATH=_pythonpath(), PYTHONWARNINGS="ignore")
    # bounded.wire: the same families are switched off as in the calling process
    code = "import sys, bounded.wire, bounded.graphs as G; G._c14_dup_main(sys.argv[1:])"
    proc = subprocess.Popen([sys.executable, "-c", code, tier, str(seed), tmp], stdin=subprocess.DEVNULL, stdout=subprocess.PIPE,
                            stderr=subprocess.PIPE, env=env, cwd=str(Path(__file__).resolve().parents[1]), text=True,
                            start_new_session=True)
    return proc, tmp


def _dup_collect(proc, tmp, timeout):
    import shutil
    import signal
    import subprocess

    problem = None
    try:
        try:
            out, err = proc.communicate(timeout=timeout)
        except subprocess.TimeoutExpired:
            try:
                os.killpg(proc.pid, signal.SIGKILL)
            except OSError:
                pass
            out, err = proc.communicate(timeout=10)
            problem = f"timeout after {timeout} s"
        for line in reversed(out.splitlines()):
            if line.startswith(DUP_MARK):
                res = json.loads(line[len(DUP_MARK):])
                if problem:  # results were produced, but the experiment did not end
                    res["failures"].append(dict(name="C14 duplicate-submission cases did not complete", case="dup", problem=problem))
                return res
        problem = problem or f"exit code {proc.returncode}, no result"
        return dict(tool="subprocess", bound="", cases=0, distinct=0,
                    failures=[dict(name="C14 duplicate-submission cases did not complete", case="dup", problem=problem, stderr=err[-600:])])
    finally:
        shutil.rmtree(tmp, ignore_errors=True)


# --------------------------------------------------------------------------------------------------------------------
# C17 — generated paths are private to the job, distinct and reproducible


def _norm(p):
    return Path(os.path.normpath(str(p)))


def _generated(nodes):
    """[(node index, parameter, path)] for the generated parameters of the listed configurations"""
    out = []
    for k, c in enumerate(nodes):
        for arg in c.__xpm__.xpmtype.arguments.values():
            if arg.generator is not None:
                out.append((k, arg.name, c.__xpm__.values.get(arg.name)))
    return out


def _is_submitted_task(c):
    from experimaestro import Task

    return isinstance(c, Task) and hasattr(c.__xpm__.job, "relpath")


def _generated_by_node(b):
    """[(spec node index, "obj" / "handle", parameter, path)]: generated parameters of the object built for every node of the
    spec and of what its referrers see (differs for tasks with task outputs); independent of any walk order"""
    out = []
    for j, (o, h) in enumerate(zip(b.objs, b.handles)):
        for which, c in ((("obj", o),) if h is o else (("obj", o), ("handle", h))):
            if _is_config(c):
                for arg in c.__xpm__.xpmtype.arguments.values():
                    if arg.generator is not None:
                        out.append((j, which, arg.name, c.__xpm__.values.get(arg.name)))
    return out


#: argument orders the graphs are rebuilt with (see build).
# "reversed+dicts" is LEFT OUT: it fails on the unchanged tree (reported; not a recorded finding).  A configuration with a generated
# path that is shared by two values of one dict parameter is sealed at the key that comes first in the *insertion* order of the dict,
# while the identifier sorts the keys: TaskPlain(table={"a": s, "b": s}) and TaskPlain(table={"b": s, "a": s}) have the same
# identifier / job directory but s.out is out/table/a/out.txt in one and out/table/b/out.txt in the other (witness spec:
# "0:GenLeaf(i=1); 1:TaskPlain{table->{'a': 0, 'b': 0}}").  To switch it on: REORDERS = ("reversed", "reversed+dicts")
REORDERS = ("reversed", "reversed+dicts")       # (the dict-item order case is a recorded finding: known_findings.json, C17)

XTASK = "C17 generated path of a configuration shared with an already submitted task lies in that task's job directory"


def _c17(tier, seed, ses2, ses):
    rng = random.Random(seed)
    rep = Report()
    specs = gen_positions() + gen_cross_task() + gen_nested() + gen_shared_siblings() + [s for s in handcrafted() if has_generators(s)]
    specs += list(enum_specs(tier, rng, 110, 1200, gen=True, root="task"))
    specs += list(enum_specs(tier, rng, 40, 300, gen=True, root="config", tasks=False))
    # containers nested directly in containers (drawn after the others)
    specs += list(enum_specs(tier, rng, 40, 500, prefix="randnest", gen=True, root="task", nested=True))
    specs += list(enum_specs(tier, rng, 15, 150, prefix="randnestc", gen=True, root="config", tasks=False, nested=True))
    for spec in specs:
        rep.distinct.add(spec_key(spec))
        b = rep.build(spec, ses, True, "C17 graph could not be built/submitted")
        if b is None:
            continue
        try:
            root = b.root
            is_task = spec["nodes"][-1]["cls"] in TASKS
            # non-task roots are sealed under a DirectoryContext: its directory plays the role of the job directory
            jobpath = _norm(root.__xpm__.job.path if is_task else b.ctx_dir)
            everything = walk(root)
            # the task's own configuration: reachable without going through another submitted task
            own = walk(root, stop=_is_submitted_task, task=False)
            # configurations that are also a direct part of an inner (earlier) submitted task
            inner_own = set()
            for j, nd in enumerate(spec["nodes"][:-1]):
                if nd["submit"]:
                    inner_own |= {id(c) for c in walk(b.objs[j], stop=_is_submitted_task, task=False)}
            for k, name, p in _generated(own):
                c = own[k]
                nm = XTASK if id(c) in inner_own else "C17 generated path is not inside the job directory"
                ok = p is not None and _norm(p) != jobpath and _norm(p).is_relative_to(jobpath)
                rep.check(ok, nm, spec, node=k, cls=_clsname(c), param=name, path=str(p), job=str(jobpath))
            gen = _generated(everything)
            rep.check(all(p is not None for _, _, p in gen), "C17 generated parameter has no value after submission", spec)
            seen = {}
            clash = None
            for k, name, p in gen:
                key = str(_norm(p)) if p is not None else None
                if key in seen and clash is None:
                    clash = dict(path=key, first=seen[key], second=[k, _clsname(everything[k]), name])
                seen.setdefault(key, [k, _clsname(everything[k]), name])
            rep.cases += len(gen) * (len(gen) - 1) // 2
            rep.check(clash is None, "C17 two generated parameters received the same path", spec, **(clash or {}))
            # every generated path lies in the directory of *some* submitted task of the graph
            jobs = [jobpath] + [_norm(c.__xpm__.job.path) for c in b.objs if _is_submitted_task(c)]
            stray = [(k, n, str(p)) for k, n, p in gen if p is not None and not any(_norm(p).is_relative_to(j) for j in jobs)]
            rep.check(not stray, "C17 generated path is not inside the job directory", spec, stray=stray[:3])

            # reproducible: same workspace (same absolute paths), and another workspace (same relative paths)
            b2 = build(spec, ses, True)
            gen2 = _generated(walk(b2.root))
            base1, base2 = (None, None) if is_task else (b.ctx_dir, b2.ctx_dir)
            r1 = [(k, n, _rel(p, base1)) for k, n, p in gen]
            r2 = [(k, n, _rel(p, base2)) for k, n, p in gen2]
            rep.check(r1 == r2, "C17 an equal graph submitted again receives other paths", spec,
                      first=[x for x, y in zip(r1, r2) if x != y][:2], second=[y for x, y in zip(r1, r2) if x != y][:2])
            # reproducible whatever the order in which the arguments are given (keyword order, order of late assignments):
            # compared per node of the spec, not per position in a walk (the walk itself follows the arguments)
            for order in REORDERS:
                b4 = build(spec, ses, True, order=order)
                same = ident(b4.root) == ident(root)
                rep.check(same, "C17 (harness) the graph rebuilt with its arguments in another order has another identifier", spec, "/" + order)
                if not same:
                    continue
                base4 = None if is_task else b4.ctx_dir
                n1 = [(j, w, n, _rel(p, base1)) for j, w, n, p in _generated_by_node(b)]
                n4 = [(j, w, n, _rel(p, base4)) for j, w, n, p in _generated_by_node(b4)]
                rep.check(n1 == n4, "C17 an equal graph built with its arguments given in another order receives other paths" if order == "reversed"
                          else "C17 an equal graph whose dict items are inserted in another order receives other paths", spec, "/" + order,
                          order=order, first=[x for x, y in zip(n1, n4) if x != y][:2], second=[y for x, y in zip(n1, n4) if x != y][:2])
            b3 = _build_in(ses2, spec)
            gen3 = _generated(walk(b3.root))
            r1 = [(k, n, _rel(p, b.ctx_dir, ses.xp.workspace.path)) for k, n, p in gen]
            r3 = [(k, n, _rel(p, b3.ctx_dir, ses2.xp.workspace.path)) for k, n, p in gen3]
            rep.check(r1 == r3, "C17 an equal graph submitted in another workspace receives other relative paths", spec,
                      first=[x for x, y in zip(r1, r3) if x != y][:2], second=[y for x, y in zip(r1, r3) if x != y][:2])
        except Exception as e:  # noqa
            rep.crash("C17 check raises", spec, e)
    return rep.result("cpython: real submit(DRY_RUN) inside a dry-run experiment (seal under a DirectoryContext for non-task roots); "
                      "all pairs of generated parameters; two builds, two workspaces",
                      "graphs of <= 8 nodes, generated paths at top level / nested / in lists / in dicts / in containers nested in "
                      "containers (list of lists, dict of lists, list of dicts, dict of dicts, three levels) / on pre- and init tasks / "
                      "on shared configurations / in cycles (non-task roots); plain dict keys (no '/')")


def _rel(p, *bases):
    if p is None:
        return str(p)
    for base in bases:
        if base is not None and Path(p).is_relative_to(base):
            return str(Path(p).relative_to(base))
    return str(p)


def _build_in(ses, spec):
    """Build/submit within the experiment of another session (the last entered experiment is the current one; here we
    need an explicit switch)"""
    from experimaestro.scheduler.base import experiment
    from experimaestro.scheduler.workspace import Workspace

    old_xp, old_ws = experiment.CURRENT, Workspace.CURRENT
    experiment.CURRENT, Workspace.CURRENT = ses.xp, ses.xp.workspace
    try:
        return build(spec, ses, True)
    finally:
        experiment.CURRENT, Workspace.CURRENT = old_xp, old_ws


# --------------------------------------------------------------------------------------------------------------------
# entry points


def _entry(name, body, sessions=1):
    """The sessions (dry-run experiments: signal handler, hence main thread) are opened here; the body runs in a fresh
    thread because TypeConfig.__init__ calls inspect.stack(), whose cost grows with the depth (and the kind of frames) of
    the caller's stack: a fresh thread makes the running time independent of who calls us."""
    import threading

    def run(tier, seed):
        box = {}

        def target(*args):
            try:
                box["result"] = body(*args)
            except BaseException as e:  # noqa
                box["error"] = e

        with contextlib.ExitStack() as st:
            ses = [st.enter_context(Session()) for _ in range(sessions)]  # the last one entered is the current experiment
            t = threading.Thread(target=target, args=(tier, seed, *ses), name=name)
            t.start()
            t.join()
        if "error" in box:
            raise box["error"]
        return box["result"]

    run.__name__ = run.__qualname__ = name
    return run


run_c12 = _entry("run_c12", _c12)
run_c13 = _entry("run_c13", _c13)
_run_c14_graphs = _entry("run_c14", _c14)


def run_c14(tier, seed):
    """Enumerated graphs (dry run) + duplicate submissions in a real experiment (subprocess, runs meanwhile)"""
    proc, tmp = _dup_start(tier, seed)
    try:
        res = _run_c14_graphs(tier, seed)
    finally:
        dup = _dup_collect(proc, tmp, 150 if tier == "quick" else 900)
    return dict(tool=res["tool"] + " || " + dup["tool"], bound=res["bound"] + " || " + dup["bound"], cases=res["cases"] + dup["cases"],
                distinct=res["distinct"] + dup["distinct"], failures=res["failures"] + dup["failures"])
run_c17 = _entry("run_c17", _c17, sessions=2)
