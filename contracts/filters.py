"""cli/filter.py — job filter expressions (C19)."""
import z3
from pyvc.vals import *      # noqa
from pyvc.state import V

var_value = z3.Function("var_value", Val, Val, Val)                 # ghost: value of a variable expression for a job
expr_value = z3.Function("expr_value", Val, Val, z3.BoolSort())     # ghost: truth value of a filter expression for a job
re_match = z3.Function("re_match", z3.StringSort(), z3.StringSort(), z3.BoolSort())   # re.match(pattern, s) is not None


def declare(reg, eng):
    M = "experimaestro.cli.filter:"
    reg.klass("JobInformation", [], {"path": "Path", "scriptname": "str", "tags": "dict[str,str]", "state": "opt:JobState"}, real=M + "JobInformation")
    reg.klass("Expr")
    reg.klass("VarExpr", [], {"varname": "str"}, real=M + "VarExpr")
    reg.klass("ConstantString", [], {"value": "str"}, real=M + "ConstantString")
    reg.klass("BaseInExpr", ["Expr"], {"var": "VarExpr", "values": "set[str]"})
    reg.klass("InExpr", ["BaseInExpr"], {}, real=M + "InExpr")
    reg.klass("NotInExpr", ["BaseInExpr"], {}, real=M + "NotInExpr")
    reg.klass("Regex", [], {"pattern": "str"})
    reg.klass("Match")
    reg.klass("RegexExpr", ["Expr"], {"var": "VarExpr", "regex": "Regex"}, real=M + "RegexExpr")
    reg.klass("EqExpr", ["Expr"], {"var1": "VarExpr", "var2": None}, real=M + "EqExpr")
    reg.klass("LogicExpr", ["Expr"], {"operator": "str", "x": "Expr", "y": "Expr"}, real=M + "LogicExpr")
    reg.specfuns.update(
        var_value=lambda e, st, a: V(var_value(a[0].t, a[1].t), None),
        expr_value=lambda e, st, a: V(BoolV(expr_value(a[0].t, a[1].t)), "bool"),
        re_match=lambda e, st, a: V(BoolV(re_match(vs(a[0].t), vs(a[1].t))), "bool"),
        member=lambda e, st, a: V(BoolV(z3.Contains(e.elems(st, a[1]), z3.Unit(a[0].t))), "bool"))
    import re as _re
    reg.runtime.update(member=lambda x, c: x in c, re_match=lambda p, s: _re.match(p, s) is not None)

    for k in ("VarExpr.get", "ConstantString.get", "InExpr.filter", "NotInExpr.filter", "RegexExpr.filter", "EqExpr.filter",
              "LogicExpr.filter", "BaseInExpr.__init__", "RegexExpr.__init__", "LogicExpr.summary", "JobInformation.state"):
        eng.load(k, "cli/filter.py")
    eng.properties.pop("JobInformation.state", None)      # verified as a function; reads of info.state use the field

    # externals
    reg.contract("re.compile", params=["pattern"], types={"pattern": "str"}, fresh="Regex", returns="Regex", modifies=[],
                 requires=["isstr(pattern)"], ensures=["result.pattern == pattern"])
    reg.contract("Regex.match", params=["self", "s"], types={"self": "Regex", "s": "str"}, returns="opt:Match", modifies=[],
                 requires=["isstr(s)"], ensures=["(not isnone(result)) == re_match(self.pattern, s)"])

    reg.contract("JobInformation.state", params=["self"], types={"self": "JobInformation"}, returns="opt:JobState", modifies=[],
                 ensures=[("C19", "(result == JobState.DONE) == isfile(self.path / (self.scriptname + '.done'))"),
                          ("C19", "(result == JobState.ERROR) == (not isfile(self.path / (self.scriptname + '.done')) and isfile(self.path / (self.scriptname + '.failed')))"),
                          ("C19", "(result == JobState.RUNNING) == (not isfile(self.path / (self.scriptname + '.done')) and not isfile(self.path / (self.scriptname + '.failed')) "
                                  "and isfile(self.path / (self.scriptname + '.pid')))"),
                          ("C19", "isnone(result) or result == JobState.DONE or result == JobState.ERROR or result == JobState.RUNNING")])

    reg.contract("VarExpr.get", params=["self", "info"], types={"self": "VarExpr", "info": "JobInformation"}, modifies=[],
                 ensures=[("C19", "implies(self.varname == '@state', result == ite(isnone(info.state), None, info.state.name))"),
                          ("C19", "implies(self.varname == '@name', result == info.path.parent.name)"),
                          ("C19", "implies(self.varname != '@state' and self.varname != '@name', "
                                  "result == ite(haskey(info.tags, self.varname), lookup(info.tags, self.varname), None))"),
                          ("ASSUME", "result == var_value(self, info)")])
    reg.contract("ConstantString.get", params=["self", "information"], types={"self": "ConstantString"}, modifies=[],
                 ensures=["result == self.value"])
    reg.contract("Expr.filter", params=["self", "information"], returns="bool", modifies=[],
                 ensures=["result == expr_value(self, information)"])
    reg.contract("BaseInExpr.__init__", params=["self", "values"], types={"self": "BaseInExpr", "values": "list"},
                 requires=["length(values) >= 1", "isclass(at(values, 0), VarExpr)",
                           "forall(k, 1, length(values), isclass(at(values, k), ConstantString) and isstr(at(values, k, ConstantString).value))"],
                 ensures=[("C19", "self.var is at(values, 0)"),
                          # the element-wise content of self.values (strings, exactly the operands) needs index-shifted
                          # sequence reasoning under quantifiers that neither solver completes: covered by the bounded
                          # differential check of createFilter (props/C19.py), not claimed as proved
                          ],
                 modifies=["self.var", "self.values"],
                 loops={"string": {"invariants": ["isfresh(_comp)", "length(_comp) == _i",
                                                  "forall(k, 0, _i, at(_comp, k) == at(values, k + 1, ConstantString).value)"]}})
    reg.contract("RegexExpr.__init__", params=["self", "tokens"], types={"self": "RegexExpr", "tokens": "list"},
                 requires=["length(tokens) == 2", "isclass(at(tokens, 0), VarExpr)", "isclass(at(tokens, 1), ConstantString)",
                           "isstr(at(tokens, 1, ConstantString).value)"],
                 ensures=[("C19", "self.var is at(tokens, 0) and self.regex.pattern == at(tokens, 1, ConstantString).value")],
                 modifies=["self.var", "self.regex"])
    reg.contract("InExpr.filter", params=["self", "information"], types={"self": "InExpr", "information": "JobInformation"}, returns="bool",
                 modifies=[], ensures=[("C19", "result == member(var_value(self.var, information), self.values)")])
    reg.contract("NotInExpr.filter", params=["self", "information"], types={"self": "NotInExpr", "information": "JobInformation"}, returns="bool",
                 modifies=[], ensures=[("C19", "result == (not member(var_value(self.var, information), self.values))")])
    reg.contract("RegexExpr.filter", params=["self", "information"], types={"self": "RegexExpr", "information": "JobInformation"}, returns="bool",
                 requires=["isnone(var_value(self.var, information)) or isstr(var_value(self.var, information))"],
                 modifies=[],
                 ensures=[("C19", "isbool(result)"),
                          ("C19", "result == (isstr(var_value(self.var, information)) and var_value(self.var, information) != '' "
                                  "and re_match(self.regex.pattern, var_value(self.var, information)))")])
    reg.contract("LogicExpr.filter", params=["self", "information"], types={"self": "LogicExpr", "information": "JobInformation"},
                 modifies=[],
                 ensures=[("C19", "implies(self.operator == 'and', result == (expr_value(self.y, information) and expr_value(self.x, information)))"),
                          ("C19", "implies(self.operator != 'and', result == (expr_value(self.y, information) or expr_value(self.x, information)))")])

    # left-associative fold of a chain  t0 (op1 t1) (op2 t2) ... : node k has node k-1 as left operand, the last node is returned
    reg.contract("LogicExpr.summary", params=["tokens"], types={"tokens": "list[LogicExpr]"},
                 requires=["length(tokens) >= 1", "distinct(tokens)"],
                 ensures=[("C19", "result is at(tokens, length(tokens) - 1)"),
                          ("C19", "implies(length(tokens) >= 2, at(tokens, 1).x is at(tokens, 0))")],
                 modifies=["*.x"],
                 # each node of the chain receives the previous node as its left operand (the quantified statement
                 # "tokens[k].x is tokens[k-1] for all k" follows from the invariant and the per-iteration clause;
                 # that last step is index-shifted sequence reasoning the solvers do not complete and is argued in DESIGN)
                 loops={"token": {"no_break": True, "invariants": ["v is at(tokens, _i + 1)", "at(tokens, 1).x is at(tokens, 0)"],
                                  "body_post": [("C19", "token.x is at_iteration_start(v) and v is token")]}})
