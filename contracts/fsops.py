"""experiment.__enter__/__exit__ (C16) and tools/jobs.fix_deprecated (C20) — filesystem-level operations."""
import z3
from pyvc.vals import *      # noqa
from pyvc.state import V


def declare(reg, eng):
    reg.enum("RunMode", [("NORMAL", "normal"), ("GENERATE_ONLY", "generate"), ("DRY_RUN", "dry-run")],
             real="experimaestro.scheduler.workspace:RunMode")
    reg.klass("Workspace", [], {"run_mode": "RunMode", "path": "Path", "connector": "Connector", "launcher": "Launcher"})
    reg.klass("FileLock")
    reg.klass("Server")
    reg.klass("TaskOutputsWorker", [], {"queue": None})
    reg.klass("SignalHandler")
    reg.klass("Service")
    reg.classes["experiment"]["fields"].update({"workspace": "Workspace", "workdir": "Path", "xplockpath": "Path", "xplock": "opt:FileLock",
                                                "server": "opt:Server", "old_experiment": None, "taskOutputsWorker": "opt:TaskOutputsWorker",
                                                "services": "dict[str,Service]", "central": "opt:SchedulerCentral"})
    reg.classes["SchedulerCentral"]["fields"]["loop"] = "Loop"
    eng.load("experiment.jobspath", "scheduler/base.py", inline=True)
    eng.load("experiment.jobsbakpath", "scheduler/base.py", inline=True)
    reg.contracts.pop("experiment.jobspath", None)        # the real property is inlined here (coroutines use the ghost function)
    eng.load("experiment.__enter__", "scheduler/base.py")
    eng.load("experiment.__exit__", "scheduler/base.py")

    # externals / opaque callees
    reg.contract("Connector.lock", params=["self", "path", "max_delay"], defaults={"max_delay": "-1"}, fresh="FileLock", returns="FileLock", modifies=[])
    reg.contract("FileLock.__enter__", params=["self"], returns="FileLock", modifies=[], ensures=["result is self"], effect="xplock.enter",
                 raises={"Exception": {"when": [], "modifies": []}})       # lock held by another process: refused
    reg.contract("FileLock.__exit__", params=["self", "a", "b", "c"], modifies=[], effect="xplock.exit")
    reg.contract("Server.start", params=["self"], modifies=[])
    reg.contract("Server.stop", params=["self"], modifies=[])
    reg.contract("Workspace.__enter__", params=["self"], modifies=[])
    reg.contract("Workspace.__exit__", params=["self", "a", "b", "c"], modifies=[])
    reg.contract("SchedulerCentral.create", params=["name"], fresh="SchedulerCentral", returns="SchedulerCentral", modifies=[])
    reg.contract("TaskOutputsWorker", params=["xp"], fresh="TaskOutputsWorker", returns="TaskOutputsWorker", modifies=[])
    reg.contract("TaskOutputsWorker.start", params=["self"], modifies=[])
    reg.contract("Queue.put", params=["self", "x"], modifies=[])
    reg.classes["TaskOutputsWorker"]["fields"]["queue"] = "Queue"
    reg.klass("Queue")
    reg.consts["SIGNAL_HANDLER"] = ("term", V(RefV(-777001), "SignalHandler"))
    reg.contract("SignalHandler.add", params=["self", "xp"], modifies=[])
    reg.contract("SignalHandler.remove", params=["self", "xp"], modifies=[])
    reg.contract("Loop.stop", params=["self"], modifies=[])
    reg.contract("Service.stop", params=["self"], modifies=[])
    reg.contract("Service.description", params=["self"], returns="str", modifies=[])
    reg.contract("experiment.wait", params=["self"], modifies=["*.state", "fs"], effect="wait",
                 raises={"FailedExperiment": {"when": [], "modifies": ["*.state", "fs"]}})
    reg.consts["experiment.CURRENT"] = ("term", V(z3.Const("experiment_CURRENT", Val), None))

    LOCKED = "implies(self.workspace.run_mode != RunMode.DRY_RUN, effect('xplock.enter'))"
    reg.contract("experiment.__enter__", params=["self"], types={"self": "experiment"}, returns="experiment", no_replay=True,
                 ensures=["result is self", ("C16", LOCKED)],
                 raises={"Exception": {"when": []}},
                 # the experiment lock is taken before the index is touched
                 effect_guards={"unlink": [("C16", LOCKED)], "rename": [("C16", LOCKED)], "mkdir": [("C16", LOCKED)],
                                "rmtree": [("C16", "False")]},
                 modifies=None,
                 loops={"p": {"body_post": [
                     # every link of the previous index ends up in the backup and leaves the new index
                     ("C16", "implies(at_iteration_start(issymlink(p)), isabsent(p) and issymlink(p_joinp(self.workdir / 'jobs.bak', p_relative_to(p, self.workdir / 'jobs'))))"),
                     ("C16", "implies(not at_iteration_start(issymlink(p)), no_effect('unlink') and no_effect('rename'))")]}})
    reg.contract("experiment.__exit__", params=["self", "exc_type", "exc_value", "traceback"], types={"self": "experiment", "exc_type": "opt:PyClass"}, no_replay=True,
                 ensures=[("C16", "implies(not isnone(exc_type), no_effect('rmtree') and no_effect('wait'))")],
                 raises={"FailedExperiment": {"when": []}, "Exception": {"when": []}},
                 effect_guards={"rmtree": [("C16", "self.workspace.run_mode == RunMode.NORMAL and isnone(exc_type) and _arg0 == self.workdir / 'jobs.bak' "
                                                   "and no_effect('wait')")],
                                "unlink": [("C16", "False")], "rename": [("C16", "False")]},
                 modifies=None)
