"""experiment.__enter__/__exit__ (C16) and tools/jobs.fix_deprecated (C20) — filesystem-level operations."""
import z3
from pyvc.vals import *      # noqa
from pyvc.state import V


def declare(reg, eng):
    reg.enum("RunMode", [("NORMAL", "normal"), ("GENERATE_ONLY", "generate"), ("DRY_RUN", "dry-run")],
             real="experimaestro.scheduler.workspace:RunMode")
    reg.klass("Workspace", [], {"run_mode": "RunMode", "path": "Path", "connector": "Connector", "launcher": "Launcher"})
    reg.klass("FileLock")
    reg.klass("Server")
    reg.klass("TaskOutputsWorker", [], {"queue": None})
    reg.klass("SignalHandler")
    reg.klass("Service")
    reg.classes["experiment"]["fields"].update({"workspace": "Workspace", "workdir": "Path", "xplockpath": "Path", "xplock": "opt:AsyncFileLock",
                                                "server": "opt:Server", "old_experiment": None, "taskOutputsWorker": "opt:TaskOutputsWorker",
                                                "services": "dict[str,Service]", "central": "opt:SchedulerCentral"})
    reg.classes["SchedulerCentral"]["fields"]["loop"] = "Loop"
    eng.load("experiment.jobspath", "scheduler/base.py", inline=True)
    eng.load("experiment.jobsbakpath", "scheduler/base.py", inline=True)
    reg.contracts.pop("experiment.jobspath", None)        # the real property is inlined here (coroutines use the ghost function)
    eng.load("experiment.__enter__", "scheduler/base.py")
    eng.load("experiment.__exit__", "scheduler/base.py")

    # externals / opaque callees
    reg.contracts["Connector.lock"]["params"] = ["self", "path", "max_delay"]
    reg.contracts["Connector.lock"]["defaults"] = {"max_delay": "-1"}
    reg.contract("AsyncFileLock.__enter__", params=["self"], returns="AsyncFileLock", modifies=[], ensures=["result is self"], effect="xplock.enter",
                 raises={"Exception": {"when": [], "modifies": []}})       # lock held by another process: refused
    reg.contract("AsyncFileLock.__exit__", params=["self", "a", "b", "c"], modifies=[], effect="xplock.exit")
    reg.contract("Server.start", params=["self"], modifies=[])
    reg.contract("Server.stop", params=["self"], modifies=[])
    reg.contract("Workspace.__enter__", params=["self"], modifies=[])
    reg.contract("Workspace.__exit__", params=["self", "a", "b", "c"], modifies=[])
    reg.contract("SchedulerCentral.create", params=["name"], fresh="SchedulerCentral", returns="SchedulerCentral", modifies=[])
    reg.contract("TaskOutputsWorker", params=["xp"], fresh="TaskOutputsWorker", returns="TaskOutputsWorker", modifies=[])
    reg.contract("TaskOutputsWorker.start", params=["self"], modifies=[])
    reg.contract("Queue.put", params=["self", "x"], modifies=[])
    reg.classes["TaskOutputsWorker"]["fields"]["queue"] = "Queue"
    reg.klass("Queue")
    reg.consts["SIGNAL_HANDLER"] = ("term", V(RefV(-777001), "SignalHandler"))
    reg.contract("SignalHandler.add", params=["self", "xp"], modifies=[])
    reg.contract("SignalHandler.remove", params=["self", "xp"], modifies=[])
    reg.contract("Loop.stop", params=["self"], modifies=[])
    reg.contract("Service.stop", params=["self"], modifies=[])
    reg.contract("Service.description", params=["self"], returns="str", modifies=[])
    reg.contract("experiment.wait", params=["self"], modifies=["*.state", "fs"], effect="wait",
                 raises={"FailedExperiment": {"when": [], "modifies": ["*.state", "fs"]}})
    reg.consts["experiment.CURRENT"] = ("term", V(z3.Const("experiment_CURRENT", Val), None))

    LOCKED = "implies(self.workspace.run_mode != RunMode.DRY_RUN, effect('xplock.enter'))"
    reg.contract("experiment.__enter__", params=["self"], types={"self": "experiment"}, returns="experiment", no_replay=True,
                 ensures=["result is self", ("C16", LOCKED)],
                 raises={"Exception": {"when": []}},
                 # the experiment lock is taken before the index is touched
                 effect_guards={"unlink": [("C16", LOCKED)], "rename": [("C16", LOCKED)], "mkdir": [("C16", LOCKED)],
                                "rmtree": [("C16", "False")]},
                 modifies=None,
                 loops={"p": {"body_post": [
                     # every link of the previous index ends up in the backup and leaves the new index
                     ("C16", "implies(at_iteration_start(issymlink(p)), isabsent(p) and issymlink(p_joinp(self.workdir / 'jobs.bak', p_relative_to(p, self.workdir / 'jobs'))))"),
                     ("C16", "implies(not at_iteration_start(issymlink(p)), no_effect('unlink') and no_effect('rename'))")]}})
    reg.contract("experiment.__exit__", params=["self", "exc_type", "exc_value", "traceback"], types={"self": "experiment", "exc_type": "opt:PyClass"}, no_replay=True,
                 ensures=[("C16", "implies(not isnone(exc_type), no_effect('rmtree') and no_effect('wait'))")],
                 raises={"FailedExperiment": {"when": []}, "Exception": {"when": []}},
                 effect_guards={"rmtree": [("C16", "self.workspace.run_mode == RunMode.NORMAL and isnone(exc_type) and _arg0 == self.workdir / 'jobs.bak' "
                                                   "and no_effect('wait')")],
                                "unlink": [("C16", "False")], "rename": [("C16", "False")]},
                 modifies=None)

    # ------------------------------------------------------------------ tools/jobs.fix_deprecated (C20)
    eng.load("fix_deprecated", "tools/jobs.py")
    reg.klass("PathParents")
    reg.contract("load_job", params=["job_path", "discard_id"], defaults={"discard_id": "True"}, returns="tuple", fresh="tuple", modifies=[],
                 ensures=["length(result) == 2"], effect="load_job")
    reg.contract("SerializationContext", params=[], fresh="SerializationContext", returns="SerializationContext", modifies=[])
    reg.klass("SerializationContext")
    reg.contract("ConfigInformation.__get_objects__", params=["self", "objects", "context"], returns="list", fresh="list", modifies=[])
    reg.contract("json.dump", params=["obj", "fp"], modifies=["fs(fp.path)"], effect="json.dump")
    reg.contract("hexid", params=["job"], returns="str", modifies=[])
    NOFS = " and ".join(f"no_effect_here('{e}')" for e in ("unlink", "rename", "replace", "symlink_to", "mkdir", "rmtree", "write_text", "json.dump", "touch", "file.write"))
    reg.contract("fix_deprecated", params=["workpath", "fix", "cleanup"], types={"workpath": "Path", "fix": "bool", "cleanup": "bool"}, no_replay=True,
                 ensures=[("C20", f"implies(not fix and not cleanup, {NOFS})")],
                 raises={"Exception": {"when": []}},
                 effect_guards={
                     "rmtree": [("C20", "False")],                                   # job data is never deleted
                     "unlink": [("C20", "issymlink(_arg0)"),                         # only links are removed
                                # once jobs are being examined (reachability under the new identifier is decided from what exists),
                                # only a dangling link may still be removed: nothing already reachable becomes unreachable
                                ("C20", "implies(maybe_effect('load_job'), not exists_path(_arg0))")],
                     "rename": [("C20", "fix and cleanup")],      # (the destination was tested absent before params.json is rewritten; disjointness of the temporary file and the destination is outside the path theory)
                     "symlink_to": [("C20", "fix and not cleanup and not exists_path(_arg0)")],
                     # the parameters are rewritten into a temporary file, never into params.json itself (which is then replaced atomically)
                     "json.dump": [("C20", "fix and cleanup"), ("C20", "_arg1.path == job_path.with_suffix('.json.tmp')")],
                     "replace": [("C20", "fix and cleanup"), ("C20", "_arg1 == job_path")],
                     "mkdir": [("C20", "fix")]},
                 modifies=None,
                 # (one contract for every loop over the job directories, however many passes the function makes)
                 loops={"job_path": {"body_post": [("C20", f"implies(not fix and not cleanup, {NOFS})")]}})
    reg.contracts["fix_deprecated"]["locals"] = {"job": "opt:Config", "params": "dict"}
    reg.classes["Identifier"]["fields"]["all"] = "bytes"
    reg.contract("ConfigInformation.identifier", params=["self"], returns="Identifier", modifies=[])
    eng.properties["ConfigInformation.identifier"] = True
