"""Sidecar contracts for experimaestro (no file of /repo is edited).

build(prop) returns an Engine whose registry holds every class table and contract and whose
`functions` table holds the *real* FunctionDef nodes parsed from the working tree."""
from pyvc.engine import Engine, Source
from pyvc.registry import Registry

AREAS = ["base", "sched", "tokens", "coroutines", "specs", "types", "filters", "runner", "objects", "fsops", "hashing", "serial", "cli"]


def build(prop=None, areas=None):
    import importlib
    reg = Registry()
    eng = Engine(reg, Source(), prop=prop)
    for a in areas or AREAS:
        try:
            m = importlib.import_module(f"contracts.{a}")
        except ModuleNotFoundError as e:
            if e.name == f"contracts.{a}":
                continue
            raise
        m.declare(reg, eng)
    return eng
