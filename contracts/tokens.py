"""tokens.py — process-level and file-based counter tokens (C08, C09)."""
import z3
from pyvc.vals import *     # noqa
from pyvc.state import V, field_sort

# ghost functions over the disk view of a token directory (assumed finite-sum theory, DESIGN B.2)
DS = z3.Function("disk_sum", z3.ArraySort(PathS, Int), z3.ArraySort(PathS, z3.StringSort()), PathS, Int)
tokcount = z3.Function("tokcount", z3.StringSort(), Int)      # count parsed from the text of a token file
tok_sum = z3.Function("tok_sum", SeqV, Int, z3.ArraySort(PathS, z3.StringSort()), Int)
TOKEN_SUFFIX = z3.StringVal(".token")


def held(kind, text, p):
    return z3.If(z3.Select(kind, p) == 1, tokcount(z3.Select(text, p)), 0)


def declare(reg, eng):
    reg.klass("Token", ["Resource"], {"available": "int", "path": "Path"})   # path: only meaningful for CounterToken (typing simplification)
    reg.klass("ProcessCounterToken", ["Token"], {"count": "int", "lock": "Mutex"}, real="experimaestro.tokens:ProcessCounterToken")
    reg.klass("CounterToken", ["Token"], {"path": "Path", "infopath": "Path", "cache": "dict[str,TokenFile]", "total": "int",
                                          "lock": "Mutex", "ipc_lock": "Mutex", "name": "str"},
              # cache coherence (representation invariant; assumed on reads of an entry, checked on writes of an entry;
              # relies on token files being written once per name while cached)
              dict_facts={"cache": "_v.path == _owner.path / _k and implies(isregular(_owner.path / _k), _v.count == tokcount(fs_text(_owner.path / _k)))"})
    reg.klass("TokenFile", [], {"path": "Path", "count": "int", "uri": "str"})
    reg.klass("CounterTokenDependency", ["Dependency"], {"_token": "Token", "count": "int", "origin": "Token"},
              real="experimaestro.tokens:CounterTokenDependency")
    reg.klass("CounterTokenLock", ["Lock"], {"dependency": "CounterTokenDependency"})
    reg.klass("FileObj", [], {"path": "Path"})

    # ---- spec functions
    def sf_disk_sum(e, st, a):          # disk_sum(dir): sum of the counts of the *.token files of dir, in the current fs
        return V(IntV(DS(st.field("$fs_kind"), st.field("$fs_text"), vp(a[0].t))), "int")

    def sf_tokcount(e, st, a):
        return V(IntV(tokcount(vs(a[0].t))), "int")

    def sf_toksum(e, st, a):            # toksum(files, i): sum over files[:i] of tokcount(text(files[k])), unfolded at i
        seq = e.elems(st, a[0]); i = vi(a[1].t); text = st.field("$fs_text")
        st.assume(tok_sum(seq, 0, text) == 0)
        st.assume(z3.Implies(i >= 0, tok_sum(seq, i + 1, text) == tok_sum(seq, i, text) + tokcount(z3.Select(text, vp(seq[i])))))
        for f in st.pc[-2:]:
            if f.get_id() not in e._gf_ids:
                e._gf_ids.add(f.get_id()); e.global_facts.append(f)
        return V(IntV(tok_sum(seq, i, text)), "int")

    def sf_held(e, st, a):              # held(p): count recorded in the token file p, 0 when absent
        return V(IntV(held(st.field("$fs_kind"), st.field("$fs_text"), vp(a[0].t))), "int")

    def sf_tokenfile_text(e, st, a):    # text written by TokenFile.create
        return V(StrV(z3.Concat(str_of_int(vi(a[0].t)), z3.StringVal("\n"), vs(a[1].t), z3.StringVal("\n"))), "str")

    reg.specfuns.update(disk_sum=sf_disk_sum, tokcount=sf_tokcount, toksum=sf_toksum, held=sf_held, tokenfile_text=sf_tokenfile_text)

    # ---- assumed finite-sum facts, instantiated where the filesystem changes or is enumerated
    def glob_hook(e, st, res, d, patv):
        pat = z3.simplify(vs(patv.t))
        if z3.is_string_value(pat) and pat.as_string() == "*.token":
            kind, text = st.field("$fs_kind"), st.field("$fs_text")
            st.assume(tok_sum(res, z3.Length(res), text) == DS(kind, text, d))     # (A1) enumeration = disk sum
            k = fresh_int("k")                                                      # (E1) *.token entries are regular files
            st.assume(qforall([k], z3.Implies(z3.And(0 <= k, k < z3.Length(res)), z3.Select(kind, vp(res[k])) == 1), patterns=[res[k]]))
            e.seq_facts.setdefault(res.decl().name(), []).append(
                lambda j: z3.Implies(z3.And(0 <= j, j < z3.Length(res)), z3.Select(kind, vp(res[j])) == 1))
    eng.glob_hooks.append(glob_hook)

    def fs_write_hook(e, st, p, old_kind, old_text):
        kind, text = st.field("$fs_kind"), st.field("$fs_text")
        d = z3.Const(fresh_name("d"), PathS)
        is_tok = z3.SuffixOf(TOKEN_SUFFIX, p_name(p))
        # (A2) changing one entry changes the sum of its directory by the difference of that entry, and no other sum
        st.assume(z3.Implies(is_tok, DS(kind, text, p_parent(p)) == DS(old_kind, old_text, p_parent(p)) - held(old_kind, old_text, p) + held(kind, text, p)))
        st.assume(z3.Implies(z3.Not(is_tok), DS(kind, text, p_parent(p)) == DS(old_kind, old_text, p_parent(p))))
        st.assume(qforall([d], z3.Implies(d != p_parent(p), DS(kind, text, d) == DS(old_kind, old_text, d)), patterns=[DS(kind, text, d)]))
    eng.fs_write_hooks.append(fs_write_hook)

    # parser abstraction: the text written by create() parses back to the count (checked by the bounded round-trip)
    c, u = z3.Int("c!ax"), z3.String("u!ax")
    eng.extra_axioms.append(qforall([c, u], tokcount(z3.Concat(str_of_int(c), z3.StringVal("\n"), u, z3.StringVal("\n"))) == c,
                                      patterns=[z3.Concat(str_of_int(c), z3.StringVal("\n"), u, z3.StringVal("\n"))]))

    # ---- real code
    for k in ("ProcessCounterToken.acquire", "ProcessCounterToken.release", "CounterToken.acquire", "CounterToken.release",
              "CounterToken._update", "TokenFile.create", "TokenFile.delete", "CounterTokenDependency.status",
              "CounterTokenLock._acquire", "CounterTokenLock._release", "CounterTokenDependency.lock", "Token.aio_notify"):
        eng.load(k, "tokens.py")
    eng.load("CounterTokenDependency.name", "tokens.py", inline=True)
    eng.load("CounterTokenDependency.token", "tokens.py", inline=True)
    eng.load("CounterTokenLock.__init__", "tokens.py", inline=True)

    # ---- externals (assumed)
    reg.contract("Path.open", params=["self", "mode"], types={"self": "Path", "mode": "str"}, fresh="FileObj", returns="FileObj",
                 modifies=["fs(self)"],
                 ensures=["result.path == self", "implies(mode == 'wt' and not old(issymlink(self)), isregular(self) and fs_text(self) == '')",
                          "implies(mode != 'wt', isfile(self) == old(isfile(self)) and fs_text(self) == old(fs_text(self)))"])
    reg.contract("FileObj.__enter__", params=["self"], types={"self": "FileObj"}, returns="FileObj", modifies=[], ensures=["result is self"])
    reg.contract("FileObj.__exit__", params=["self"], types={"self": "FileObj"}, modifies=[])
    reg.contract("FileObj.write", params=["self", "text"], types={"self": "FileObj", "text": "str"}, modifies=["fs(self.path)"],
                 requires=["isregular(self.path)"],
                 ensures=["isregular(self.path)", "fs_text(self.path) == old(fs_text(self.path)) + text"], effect="file.write")
    reg.contract("Job.basepath", params=["self"], returns="Path", modifies=[])
    eng.properties["Job.basepath"] = True
    reg.contract("TokenFile.__init__", params=["self", "path"], types={"self": "TokenFile", "path": "Path"}, trusted=True,
                 modifies=["self.path", "self.count", "self.uri"],
                 ensures=["self.path == path", "self.count == tokcount(fs_text(path))"],
                 raises={"Exception": {"when": [], "modifies": ["self.path", "self.count", "self.uri"]}})
    reg.contract("TokenFile.watch", params=["self"], modifies=[], effect="watch")

    # ---- Token / process token
    reg.contract("Token.aio_notify", params=["self"], types={"self": "Token"}, modifies=[], effect="notify")
    reg.contract("ProcessCounterToken.acquire", params=["self", "dependency"],
                 types={"self": "ProcessCounterToken", "dependency": "CounterTokenDependency"},
                 requires=["dependency.count >= 0", "0 <= self.available", "self.available <= self.count"],
                 ensures=[("C08", "self.available == old(self.available) - dependency.count"),
                          ("C08", "0 <= self.available and self.available <= self.count")],
                 raises={"LockError": {"when": [("C08", "old(self.available) < dependency.count")], "ensures": ["self.available == old(self.available)"],
                                       "modifies": []}},
                 modifies=["self.available"])
    reg.contract("ProcessCounterToken.release", params=["self", "dependency"],
                 types={"self": "ProcessCounterToken", "dependency": "CounterTokenDependency"},
                 requires=[],
                 ensures=[("C09", "self.available == old(self.available) + dependency.count"), ("C09", "effect('notify')")],
                 modifies=["self.available"])
    reg.contract("CounterTokenDependency.status", params=["self"], types={"self": "CounterTokenDependency"}, returns="DependencyStatus",
                 modifies=[], ensures=["(result == DependencyStatus.OK) == (self.count <= self._token.available)",
                                       "result == DependencyStatus.OK or result == DependencyStatus.WAIT"])
    reg.contract("CounterTokenDependency.lock", params=["self"], types={"self": "CounterTokenDependency"}, returns="CounterTokenLock",
                 modifies=[], ensures=["isfresh(result)", "result.dependency is self", "result._level == 0", "result.detached == False",
                                       ("ASSUME", "result.ghost_held == False")])

    # ---- file token
    TOKINV = ["self.infopath == self.path / 'token.info'", "not issymlink(self.infopath)"]
    IN_IPC = "effect_with_arg('mutex.enter', 0, self.ipc_lock) and not effect_with_arg('mutex.exit', 0, self.ipc_lock)"
    reg.contract("TokenFile.create", params=["dependency"], types={"dependency": "CounterTokenDependency"}, returns="TokenFile",
                 requires=["isclass(dependency._token, CounterToken)", "not isnone(dependency.target)",
                           "not issymlink(dependency._token.path / dependency.name)"],
                 ensures=["isfresh(result)", "result.count == dependency.count",
                          "result.path == dependency._token.path / dependency.name",
                          ("C08", "isregular(result.path)"),
                          ("C08", "fs_text(result.path) == tokenfile_text(dependency.count, result.uri)"),
                          ("C08", "held(result.path) == dependency.count")],
                 modifies=["fs(dependency._token.path / dependency.name)"], effect="tokenfile.create")
    reg.contract("TokenFile.delete", params=["self"], types={"self": "TokenFile"},
                 ensures=[("C09", "not isfile(self.path)")],
                 modifies=["fs(self.path)"], effect="tokenfile.delete")
    reg.contract("CounterToken._update", params=["self"], types={"self": "CounterToken"},
                 requires=TOKINV + ["isfile(self.infopath)"],
                 ensures=[("C08", "self.available == self.total - disk_sum(self.path)"),
                          ("C08", "self.total == int(fs_text(self.infopath))"),
                          "isfresh(self.cache)",
                          # cache = directory listing (glob soundness/completeness + E1): assumed, see DESIGN C08
                          ("ASSUME", "forall_val(k, haskey(self.cache, k) == (isregular(self.path / k) and k.endswith('.token')))")],
                 raises={"Exception": {"when": [], "modifies": ["self.total", "self.available", "self.cache"]}},
                 modifies=["self.total", "self.available", "self.cache"],
                 loops={"path": {"invariants": ["self.available == self.total - toksum(_seq, _i)",
                                                "isfresh(self.cache)"]}})
    reg.contract("CounterToken.acquire", params=["self", "dependency"],
                 types={"self": "CounterToken", "dependency": "CounterTokenDependency"},
                 requires=TOKINV + ["isfile(self.infopath)", "dependency.count >= 0", "dependency._token is self", "not isnone(dependency.target)",
                                    "held(self.path / dependency.name) >= 0",
                                    "not issymlink(self.path / dependency.name)"],
                 ensures=[("C08", "disk_sum(self.path) <= int(fs_text(self.infopath))"),
                          ("C08", "disk_sum(self.path) == old(disk_sum(self.path)) - old(held(self.path / dependency.name)) + dependency.count"),
                          ("C08", "held(self.path / dependency.name) == dependency.count")],
                 raises={"LockError": {"when": [("C08", "int(old(fs_text(self.infopath))) - old(disk_sum(self.path)) < dependency.count")],
                                       "modifies": ["self.total", "self.available", "self.cache"]},
                         "Exception": {"when": [], "modifies": ["self.total", "self.available", "self.cache"]}},
                 # the token file is created inside the inter-process critical section that read the directory (C08: two
                 # processes must not both decide on the same snapshot)
                 effect_guards={"tokenfile.create": [("C08", IN_IPC)]},
                 modifies=["self.total", "self.available", "self.cache", "dict(self.cache)", "fs(self.path / dependency.name)"])
    reg.contract("CounterToken.release", params=["self", "dependency"],
                 types={"self": "CounterToken", "dependency": "CounterTokenDependency"},
                 requires=TOKINV + ["isfile(self.infopath)", "dependency._token is self", "not isnone(dependency.target)"],
                 ensures=[("C09", "not isregular(self.path / dependency.name)"),
                          ("C09", "disk_sum(self.path) == old(disk_sum(self.path)) - old(held(self.path / dependency.name))"),
                          ("C09", "implies(old(isregular(self.path / dependency.name)), effect('notify'))")],
                 raises={"Exception": {"when": [], "modifies": ["self.total", "self.available", "self.cache"]}},
                 effect_guards={"tokenfile.delete": [("C08", IN_IPC)]},
                 modifies=["self.total", "self.available", "self.cache", "dict(self.cache)", "fs(self.path / dependency.name)"])

    # ---- lock adapters (behavioural subtyping: refine Lock._acquire / Lock._release)
    reg.contract("Token.acquire", params=["self", "dependency"], modifies=["self.available", "*.total", "*.cache", "fs"],
                 effect="token.acquire", raises={"LockError": {"when": [], "modifies": ["*.total", "self.available", "*.cache"]}})
    reg.contract("Token.release", params=["self", "dependency"], modifies=["self.available", "*.total", "*.cache", "fs"], effect="token.release")
    reg.contract("CounterTokenLock._acquire", params=["self"], types={"self": "CounterTokenLock"},
                 ensures=[("C08", "effect_count('token.acquire') == 1")],
                 raises={"LockError": {"when": [], "modifies": ["*.total", "*.available", "*.cache"]}},
                 modifies=["*.available", "*.total", "*.cache", "fs"])
    reg.contract("CounterTokenLock._release", params=["self"], types={"self": "CounterTokenLock"},
                 ensures=[("C09", "effect_count('token.release') == 1")],
                 modifies=["*.available", "*.total", "*.cache", "fs"])

    # ---- C09: a token file of another scheduler that disappears gives its units back to this scheduler's view, and is forgotten
    #      (otherwise a later file of the same name is never watched)
    eng.load("CounterToken.on_deleted", "tokens.py")
    reg.klass("FsEvent", [], {"src_path": "str"})
    reg.classes["CounterToken"]["fields"].setdefault("watchedpath", "str")
    NAME = "Path(event.src_path).name"
    reg.contract("CounterToken.on_deleted", params=["self", "event"], types={"self": "CounterToken", "event": "FsEvent"}, no_replay=True,
                 # (the second test re-checks the first under the thread lock: other threads are not modelled, so it is constant here)
                 unreachable_ok=["if name in self.cache:   [never false]"],
                 requires=["isint(self.available)"],
                 ensures=[("C09", f"implies(old(haskey(self.cache, {NAME})), not haskey(self.cache, {NAME}) "
                                  f"and self.available == old(self.available) + old(lookup(self.cache, {NAME}).count))"),
                          ("C09", f"implies(not old(haskey(self.cache, {NAME})), self.available == old(self.available))"),
                          ("C09", f"implies(old(haskey(self.cache, {NAME})) and self.available > 0, effect('notify'))")],
                 modifies=["self.available", "dict(self.cache)"])

    # ---- C09: the watcher of a foreign holding gives the tokens back when the recorded job process is gone
    eng.load("TokenFile.watch.run", "tokens.py", qualname="TokenFile.watch.run")
    reg.klass("LocalConnector")
    reg.klass("WProcess")
    reg.contract("fasteners.InterProcessLock", params=["path"], fresh="Mutex", returns="Mutex", modifies=[]) if "fasteners.InterProcessLock" not in reg.contracts else None
    reg.contract("LocalConnector.instance", params=[], fresh="LocalConnector", returns="LocalConnector", modifies=[])
    reg.contract("json.loads", params=["s"], modifies=[], raises={"ValueError": {"when": []}})
    reg.contract("Process.fromDefinition", params=["connector", "definition"], returns="opt:WProcess", modifies=[])
    reg.contract("WProcess.wait", params=["self"], awaits=True, modifies=[], effect="process.wait")
    reg.contracts["TokenFile.delete"]["effect"] = "tokenfile.delete"
    reg.contract("TokenFile.watch.run", params=[], closure={"self": "TokenFile", "lockpath": "Path", "pidpath": "Path", "path": "Path"}, no_replay=True,
                 # whatever the watcher finds (no pid file, a stale pid file whose process is gone, a live process that is then
                 # waited for), it ends by deleting the token file it watches
                 ensures=[("C09", "effect_count('tokenfile.delete') == 1"),
                          ("C09", "effect_with_arg('tokenfile.delete', 0, self)"),
                          ("C09", "implies(effect('process.wait'), effect_before('process.wait', 'tokenfile.delete'))")],
                 # (C08) the holding of another scheduler is given back only after the watcher held the job lock of that job while it
                 # looked for the process: a job that is still starting (lock held, pid file not written yet) is not mistaken for a
                 # finished one
                 effect_guards={"tokenfile.delete": [("C08", "effect_here('iplock.acquire') and at_effect('iplock.acquire', effect_arg('iplock.acquire', 0).acquired)")]},
                 raises={"ValueError": {"when": []}, "FileNotFoundError": {"when": []}},
                 interference={"shared": ["$fs_kind", "$fs_text", "$fs_target"], "rely": [], "guarantee": []},
                 modifies=None)
