"""locking.py, scheduler/dependencies.py, scheduler/base.py (state machine part)."""

JOBSTATE = [("UNSCHEDULED", 0), ("WAITING", 1), ("READY", 2), ("SCHEDULED", 3), ("RUNNING", 4), ("DONE", 5), ("ERROR", 6)]


def declare(reg, eng):
    reg.enum("JobState", JOBSTATE, real="experimaestro.scheduler.base:JobState")
    reg.enum("DependencyStatus", [("WAIT", 0), ("OK", 1), ("FAIL", 2)], real="experimaestro.scheduler.dependencies:DependencyStatus")
    reg.enum("JobFailureStatus", [("DEPENDENCY", 0), ("FAILED", 1), ("MEMORY", 2)])

    # ghost_held: specification-only field (no counterpart in the code): the last acquire() of this lock object succeeded,
    # i.e. a holding was really taken; defined by the ("ASSUME", ...) clauses of lock() / acquire() below
    reg.klass("Lock", [], {"_level": "int", "detached": "bool", "ghost_held": "bool"})
    reg.klass("Locks", ["Lock"], {"locks": "list[Lock]"})
    reg.klass("JobLock", ["Lock"], {"job": "Job"})
    reg.klass("Dependents", [], {"lock": "Mutex", "_dependents": "set[Dependency]"})
    reg.klass("Resource", [], {"dependents": "Dependents"})
    reg.klass("Dependency", [], {"origin": "Resource", "target": "opt:Job", "currentstatus": "DependencyStatus", "loop": "Loop"})
    reg.klass("JobDependency", ["Dependency"], {"origin": "Job"})
    reg.klass("Job", ["Resource"], real="experimaestro.scheduler.base:Job", fields={"state": "JobState", "unsatisfied": "int", "failure_status": "opt:JobFailureStatus",
                                   "_readyEvent": "Event", "dependencies": "set[Dependency]", "scheduler": "Scheduler",
                                   "identifier": "str", "type": None, "_future": None, "config": None, "launcher": "Launcher"})
    reg.klass("Scheduler", [], real="experimaestro.scheduler.base:Scheduler", fields={"xp": "experiment", "jobs": "dict[str,Job]", "exitmode": "bool", "waitingjobs": "set[Job]",
                                 "listeners": "set[Listener]", "loop": "Loop", "name": "str"})
    reg.klass("experiment", [], real="experimaestro.scheduler.base:experiment", fields={"unfinishedJobs": "int", "failedJobs": "dict[str,Job]", "central": "SchedulerCentral",
                                  "exitMode": "bool", "taskOutputQueueSize": "int", "server": None, "scheduler": "Scheduler"})
    reg.klass("SchedulerCentral", [], {"exitCondition": "Condition", "dependencyLock": "AsyncLock", "loop": "Loop"})
    reg.klass("Listener")

    # ---- real code
    for m in ("notstarted", "running", "finished"):
        eng.load(f"JobState.{m}", "scheduler/base.py", inline=True)
    eng.load("Lock.acquire", "locking.py")
    eng.load("Lock.release", "locking.py")
    eng.load("Lock.__enter__", "locking.py")
    eng.load("Lock.__exit__", "locking.py")
    eng.load("Locks._release", "locking.py")
    eng.load("Locks._acquire", "locking.py")
    eng.load("Locks.append", "locking.py", inline=True)
    eng.load("JobLock._acquire", "scheduler/base.py")
    eng.load("JobLock._release", "scheduler/base.py")
    eng.load("JobDependency.status", "scheduler/base.py")
    eng.load("Dependency.check", "scheduler/dependencies.py")
    eng.load("Job.dependencychanged", "scheduler/base.py")
    eng.load("Scheduler.aio_registerJob", "scheduler/base.py")

    # ---- locking.py
    reg.contract("Lock._acquire", params=["self"], modifies=["*.available", "fs"], effect="_acquire",
                 raises={"LockError": {"when": [], "modifies": []}})
    reg.contract("Lock._release", params=["self"], modifies=["*.available", "fs"], effect="_release")
    reg.contract("Lock.acquire", params=["self"], types={"self": "Lock"}, returns="Lock", effect="lock.acquire",
                 requires=["isint(self._level)"],
                 ensures=["result is self",
                          "implies(old(self._level) == 0, self._level == 1 and effect_count('_acquire') == 1)",
                          "implies(old(self._level) != 0, self._level == old(self._level) and effect_count('_acquire') == 0)",
                          ("ASSUME", "implies(old(self._level) == 0, self.ghost_held == True)"),
                          ("ASSUME", "implies(old(self._level) != 0, self.ghost_held == old(self.ghost_held))")],
                 # a refused acquire takes nothing: ghost_held is not in the frame of this outcome
                 raises={"LockError": {"when": ["old(self._level) == 0"], "modifies": ["self._level"]}},
                 modifies=["self._level", "self.ghost_held", "*.available", "fs"])
    reg.contract("Lock.release", params=["self"], types={"self": "Lock"},
                 requires=["isint(self._level)", "isbool(self.detached)"],
                 ensures=[("C09", "implies(not old(self.detached) and old(self._level) == 1, self._level == 0 and effect_count('_release') == 1)"),
                          "implies(old(self.detached) or old(self._level) != 1, self._level == old(self._level) and effect_count('_release') == 0)",
                          "implies(not old(self.detached) and old(self._level) == 1, effect('_release'))"],
                 propagates=["_release"],
                 modifies=["self._level", "*.available", "fs"])
    reg.contract("Lock.__enter__", params=["self"], types={"self": "Lock"}, returns="Lock", requires=["isint(self._level)"],
                 ensures=["result is self"], raises={"LockError": {"when": [], "modifies": ["self._level"]}},
                 modifies=["self._level", "self.ghost_held", "*.available", "fs"])
    reg.contract("Lock.__exit__", params=["self"], types={"self": "Lock"}, requires=["isint(self._level)", "isbool(self.detached)"],
                 # (release() is called here: "exactly once" is its own clause; its _release effect is propagated to this caller)
                 ensures=[("C09", "implies(not old(self.detached) and old(self._level) == 1, self._level == 0 and effect('_release'))")],
                 modifies=["self._level", "*.available", "fs"])
    REL = "forall(k, 0, %s, implies(not old(at(self.locks, k).detached) and old(at(self.locks, k)._level) == 1, at(self.locks, k)._level == 0))"
    reg.contract("Locks._release", params=["self"], types={"self": "Locks"},
                 requires=["distinct(self.locks)"],
                 ensures=[("C09", REL % "length(self.locks)")],
                 modifies=["*._level", "*.available", "*.total", "*.cache", "fs"],
                 loops={"lock": {"invariants": [REL % "_i", "forall(k, _i, length(self.locks), at(self.locks, k)._level == old(at(self.locks, k)._level))"]}})
    reg.contract("JobLock._acquire", params=["self"], types={"self": "JobLock"}, returns="bool", modifies=[],
                 ensures=["result == (self.job.state == JobState.DONE)"])
    reg.contract("JobLock._release", params=["self"], types={"self": "JobLock"}, modifies=[])

    # ---- dependencies
    reg.contract("Dependency.status", params=["self"], types={"self": "Dependency"}, returns="DependencyStatus", modifies=[])
    reg.contract("JobDependency.status", params=["self"], types={"self": "JobDependency"}, returns="DependencyStatus", modifies=[],
                 ensures=[(("C04", "C07"), "(result == DependencyStatus.OK) == (self.origin.state == JobState.DONE)"),
                          ("C07", "(result == DependencyStatus.FAIL) == (self.origin.state == JobState.ERROR)"),
                          "result == DependencyStatus.OK or result == DependencyStatus.FAIL or result == DependencyStatus.WAIT"])

    dc_mod = ["self.unsatisfied", "self.state", "self.failure_status", "self._readyEvent._set"]
    reg.contract("Job.dependencychanged", params=["self", "dependency", "oldstatus", "status"],
                 types={"self": "Job", "dependency": "Dependency", "oldstatus": "DependencyStatus", "status": "DependencyStatus"},
                 requires=["isint(self.unsatisfied)", "status != oldstatus", "isref(self._readyEvent)"],
                 ensures=[
                     (("C04", "C07"), "self.unsatisfied == old(self.unsatisfied) - (ite(status == DependencyStatus.OK, 1, 0) - ite(oldstatus == DependencyStatus.OK, 1, 0))"),
                     ("C04", "implies(self.state != old(self.state) and self.state == JobState.READY, self.unsatisfied == 0)"),
                     ("C06", "implies(old(self.state).finished(), self.state == old(self.state))"),
                     ("C06", "self.state == old(self.state) or self.state == JobState.READY or self.state == JobState.ERROR"),
                     ("C06", "implies(self.unsatisfied == 0 and not old(self.state).finished() and status != DependencyStatus.FAIL, self.state == JobState.READY and self._readyEvent._set)"),
                     ("C07", "implies(status == DependencyStatus.FAIL and not old(self.state).finished() and self.unsatisfied != 0, "
                             "self.state == JobState.ERROR and self.failure_status == JobFailureStatus.DEPENDENCY and self._readyEvent._set)"),
                     ("C07", "implies(self.state == JobState.ERROR and old(self.state) != JobState.ERROR, status == DependencyStatus.FAIL)"),
                 ],
                 modifies=dc_mod)

    reg.contract("Dependency.check", params=["self"], types={"self": "Dependency"},
                 requires=["isint(self.target.unsatisfied)", "isref(self.target._readyEvent)"],
                 ensures=[
                     ("C04", "self.target.unsatisfied == old(self.target.unsatisfied) - (ite(self.currentstatus == DependencyStatus.OK, 1, 0) - ite(old(self.currentstatus) == DependencyStatus.OK, 1, 0))"),
                     ("C06", "implies(old(self.target.state).finished(), self.target.state == old(self.target.state))"),
                     "implies(self.currentstatus == old(self.currentstatus), self.target.state == old(self.target.state))",
                     # the target only becomes ERROR here on a FAIL status, and a token dependency never reports one
                     (("C06", "C07"), "implies(self.target.state == JobState.ERROR and old(self.target.state) != JobState.ERROR, self.currentstatus == DependencyStatus.FAIL)"),
                     (("C06", "C07"), "implies(isclass(self, CounterTokenDependency), self.currentstatus != DependencyStatus.FAIL or old(self.currentstatus) == DependencyStatus.FAIL)"),
                     "self.target.state == old(self.target.state) or self.target.state == JobState.READY or self.target.state == JobState.ERROR",
                 ],
                 raises={"AssertionError": {"when": ["isnone(old(self.target))"], "modifies": []}},
                 modifies=["self.currentstatus", "self.target.unsatisfied", "self.target.state", "self.target.failure_status", "self.target._readyEvent._set"])

    # ---- registry of jobs
    reg.contract("Scheduler.aio_registerJob", unreachable_ok=['logger.warning("Exit mode: not submitting")', 'if self.exitmode:   [never true]'], params=["self", "job"], types={"self": "Scheduler", "job": "Job"},
                 requires=["isint(self.xp.unfinishedJobs)", "self.exitmode == False", "isstr(job.identifier)"],
                 ensures=[
                     ("C05", "implies(old(haskey(self.jobs, job.identifier)) and old(lookup(self.jobs, job.identifier, Job).state) != JobState.ERROR, "
                             "result is old(lookup(self.jobs, job.identifier, Job)) and self.xp.unfinishedJobs == old(self.xp.unfinishedJobs) "
                             "and lookup(self.jobs, job.identifier) is old(lookup(self.jobs, job.identifier)))"),
                     ("C05", "implies(not old(haskey(self.jobs, job.identifier)), isnone(result) and lookup(self.jobs, job.identifier) is job)"),
                     (("C05", "C06"), "implies(isnone(result), self.xp.unfinishedJobs == old(self.xp.unfinishedJobs) + 1 and lookup(self.jobs, job.identifier) is job)"),
                     ("C06", "implies(not isnone(result), self.xp.unfinishedJobs == old(self.xp.unfinishedJobs))"),
                     ("C05", "isnone(result) or result is old(lookup(self.jobs, job.identifier))"),
                 ],
                 raises={"AssertionError": {"when": ["old(haskey(self.jobs, job.identifier))"], "modifies": []}},
                 modifies=["self.xp.unfinishedJobs", "dict(self.jobs)"])
