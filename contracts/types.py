"""core/types.py — parameter type objects and their validate() (C15)."""
import z3
from pyvc.vals import *      # noqa
from pyvc.state import V

hastype = z3.Function("hastype", Val, Val, z3.BoolSort())        # ghost: value conforms to the type object
inst_of = z3.Function("isinstance_dyn", Val, Val, z3.BoolSort())  # ghost: isinstance(value, <class object held in a field>)


def declare(reg, eng):
    M = "experimaestro.core.types:"
    reg.klass("Type", [], {})
    for c in ("IntType", "StrType", "FloatType", "BoolType", "PathType", "AnyType"):
        reg.klass(c, ["Type"], {}, real=M + c)
    reg.klass("ArrayType", ["Type"], {"type": "Type"}, real=M + "ArrayType")
    reg.klass("DictType", ["Type"], {"keytype": "Type", "valuetype": "Type"}, real=M + "DictType")
    reg.klass("EnumType", ["Type"], {"type": None}, real=M + "EnumType")
    reg.klass("UnionType", ["Type"], {"types": "list[Type]"})
    reg.specfuns["hastype"] = lambda e, st, a: V(BoolV(hastype(a[0].t, a[1].t)), "bool")
    reg.specfuns["asreal"] = lambda e, st, a: V(Val.FloatV(z3.If(Val.is_FloatV(a[0].t), vf(a[0].t), z3.ToReal(vi(a[0].t)))), "float")

    reg.runtime.update(asreal=float, inst_of=lambda v, c: isinstance(v, c))
    for c in ("IntType", "StrType", "FloatType", "BoolType", "PathType", "AnyType", "ArrayType", "DictType"):
        eng.load(f"{c}.validate", "core/types.py")

    # dynamic dispatch: the base contract, refined by every override (behavioural subtyping)
    reg.contract("Type.validate", params=["self", "value"], types={"self": "Type"}, modifies=[],
                 ensures=["hastype(self, result)"],
                 raises={"TypeError": {"when": []}, "ValueError": {"when": []}, "AssertionError": {"when": []}})

    INT = "(isint(%s) or isbool(%s))"
    reg.contract("IntType.validate", params=["self", "value"], types={"self": "IntType"}, modifies=[],
                 ensures=[("C15", INT % ("result", "result")),
                          ("C15", "implies(isfloat(value), asreal(result) == asreal(value))"),       # documented coercion: integral float -> int
                          ("C15", "implies(not isfloat(value), result is value)")],
                 raises={"TypeError": {"when": [("C15", "not (isint(value) or isbool(value)) or isfloat(value)")]}})
    reg.contract("StrType.validate", params=["self", "value"], types={"self": "StrType"}, modifies=[],
                 ensures=[("C15", "isstr(result) and result == value")],
                 raises={"TypeError": {"when": [("C15", "not isstr(value)")]}})
    reg.contract("FloatType.validate", params=["self", "value"], types={"self": "FloatType"}, modifies=[],
                 requires=["not isbool(value)"],     # bool is an int for Python: float(True) = 1.0 (outside the documented coercions, not claimed)
                 ensures=[("C15", "isfloat(result)"), ("C15", "asreal(result) == asreal(value)")],    # documented coercion: int -> float
                 raises={"TypeError": {"when": [("C15", "not (isint(value) or isfloat(value))")]}})
    reg.contract("BoolType.validate", params=["self", "value"], types={"self": "BoolType"}, modifies=[],
                 ensures=[("C15", "isbool(result)"), ("C15", "implies(isbool(value), result == value)")])
    reg.contract("PathType.validate", unreachable_ok=['return Path(value.get("$value"))', 'if isinstance(value, dict) and value.get("$type", None) == "path":   [never true]'], params=["self", "value"], types={"self": "PathType"}, modifies=[],
                 requires=["not isclass(value, dict)"],      # the {'$type': 'path'} legacy form is outside the property's constructor list
                 ensures=[("C15", "ispath(result)"), ("C15", "implies(ispath(value), result == value)"),
                          ("C15", "implies(isstr(value), result == Path(value))")],          # documented coercion: str -> path
                 raises={"TypeError": {"when": [("C15", "not (isstr(value) or ispath(value))")]}})
    reg.contract("AnyType.validate", params=["self", "value"], types={"self": "AnyType"}, modifies=[], ensures=["result is value"])
    reg.contract("ArrayType.validate", params=["self", "value"], types={"self": "ArrayType"}, returns="list", modifies=[],
                 ensures=[("C15", "isclass(result, list) and length(result) == length(value)"),
                          ("C15", "forall(k, 0, length(result), hastype(self.type, at(result, k)))")],
                 raises={"ValueError": {"when": []}, "TypeError": {"when": []}, "AssertionError": {"when": []}},
                 loops={"x": {"invariants": ["length(_comp) == _i", "forall(k, 0, _i, hastype(self.type, at(_comp, k)))", "isfresh(_comp)"]}})
    reg.contract("DictType.validate", params=["self", "value"], types={"self": "DictType"}, returns="dict", modifies=[],
                 ensures=[("C15", "isclass(result, dict)"),
                          ("C15", "forall_keys(result, k, hastype(self.keytype, k) and hastype(self.valuetype, lookup(result, k)))")],
                 raises={"ValueError": {"when": []}, "TypeError": {"when": []}, "AssertionError": {"when": []}},
                 loops={"(key, value)": {"invariants": ["isfresh(_comp)",
                                                        "forall_keys(_comp, k, hastype(self.keytype, k) and hastype(self.valuetype, lookup(_comp, k)))"]}})

    # ---- configuration-typed and enum-typed parameters
    reg.klass("Config", [], {"__xpm__": "ConfigInformation", "__xpmtype__": "ObjectType"})
    reg.klass("ConfigInformation", [], {"job": None})
    reg.klass("ObjectType", ["Type"], {"basetype": None, "task": None, "identifier": None, "_deprecated": "bool",
                                       "_deprecated_identifier": None}, real=M + "ObjectType")
    reg.specfuns["inst_of"] = lambda e, st, a: V(BoolV(inst_of(a[0].t, a[1].t)), "bool")
    reg.contract("ObjectType.__initialize__", params=["self"], modifies=[])
    eng.load("ObjectType.validate", "core/types.py")
    eng.load("EnumType.validate", "core/types.py")
    reg.contract("ObjectType.validate", params=["self", "value"], types={"self": "ObjectType"}, modifies=[],
                 ensures=[("C15", "result is value"), ("C15", "not isnone(result)"),
                          ("C15", "isclass(result, Config) and inst_of(result, self.basetype)"),
                          ("C15", "implies(bool(self.task), bool(result.__xpm__.job))")],
                 raises={"ValueError": {"when": [("C15", "not isclass(value, Config) or not inst_of(value, self.basetype) or "
                                                         "(bool(self.task) and not bool(value.__xpm__.job))")]}})
    reg.contract("EnumType.validate", params=["self", "value"], types={"self": "EnumType"}, modifies=[],
                 ensures=[("C15", "result is value and inst_of(value, self.type)")],
                 raises={"AssertionError": {"when": [("C15", "not inst_of(value, self.type)")]}})
