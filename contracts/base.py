"""Externals shared by all areas: mutexes, asyncio primitives, exceptions (assumed contracts)."""


def declare(reg, eng):
    reg.klass("Mutex")                      # threading.Lock / fasteners.InterProcessLock used in `with`: mutual exclusion assumed
    reg.klass("Loop")
    reg.klass("Event", [], {"_set": "bool"})
    reg.klass("Condition")
    reg.klass("AsyncLock")
    for e in ("LockError", "SealedError", "JobError"):
        reg.klass(e, ["Exception"], exc=True)
    reg.klass("HandledException", ["Exception"], exc=True)
    reg.klass("FailedExperiment", ["HandledException"], exc=True)

    # asyncio.Event (single event-loop thread)
    reg.contract("Event.set", params=["self"], types={"self": "Event"}, modifies=["self._set"], ensures=["self._set == True"])
    reg.contract("Event.clear", params=["self"], types={"self": "Event"}, modifies=["self._set"], ensures=["self._set == False"])
    reg.contract("Event.wait", params=["self"], types={"self": "Event"}, awaits=True, modifies=[], ensures=["self._set == True"])
    reg.contract("Event.is_set", params=["self"], types={"self": "Event"}, returns="bool", modifies=[], ensures=["result == self._set"])

    # asyncio.Condition / Lock as async context managers
    for c in ("Condition", "AsyncLock"):
        reg.contract(f"{c}.__aenter__", params=["self"], modifies=[], effect=f"{c}.enter")
        # asyncio.Lock / Condition.__aexit__ only calls release(): it never suspends the coroutine
        reg.contract(f"{c}.__aexit__", params=["self"], modifies=[], effect=f"{c}.exit", no_yield=True)
    reg.contract("Condition.notify_all", params=["self"], modifies=[], effect="notify_all")
    reg.contract("Condition.wait", params=["self"], awaits=True, modifies=[], effect="cond.wait")
    reg.contract("Loop.call_soon", params=["self", "fn"], modifies=[], effect="call_soon")
    reg.contract("Loop.call_soon_threadsafe", params=["self", "fn", "arg"], modifies=[], effect="call_soon")
    reg.contract("time.time", params=[], returns="float", modifies=[])
