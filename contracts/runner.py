"""run.py — the task-side runner (C10, task-side part of C05)."""


def declare(reg, eng):
    reg.klass("IPLock", [], {"acquired": "bool"})
    reg.klass("TaskRunner", [], {"scriptpath": "Path", "pidfile": "Path", "lockfiles": "list[str]", "donepath": "Path",
                                 "failedpath": "Path", "started": "bool", "locks": "list[IPLock]", "cleaned": "bool"},
              real="experimaestro.run:TaskRunner")
    reg.klass("SystemExit", ["BaseException"], exc=True)
    reg.const("sys.platform", "str", "linux")
    reg.const("os.sep", "str", "/")
    reg.const("signal.SIGTERM", "int", 15)
    reg.const("signal.SIGINT", "int", 2)

    # ---- externals (assumed)
    reg.contract("atexit.register", params=["fn"], modifies=[], effect="atexit.register")
    reg.contract("atexit.unregister", params=["fn"], modifies=[], effect="atexit.unregister")
    reg.contract("signal.signal", params=["sig", "handler"], modifies=[], effect="signal.signal")
    reg.contract("os.register_at_fork", params=["before", "after_in_parent", "after_in_child"],
                 defaults={"before": "None", "after_in_parent": "None", "after_in_child": "None"}, modifies=[], effect="register_at_fork")
    reg.contract("os.chdir", params=["d"], modifies=[], raises={"OSError": {"when": []}})
    reg.contract("os.getpid", params=[], returns="int", modifies=[])
    reg.contract("sys.exit", params=["code"], never_returns=True, modifies=[], raises={"SystemExit": {"when": [], "value": "code"}})
    reg.contract("fasteners.InterProcessLock", params=["path"], fresh="IPLock", returns="IPLock", modifies=[],
                 ensures=["result.acquired == False"])
    # blocking on an inter-process lock is an interference point: other processes (an earlier launch of the same job)
    # may create or remove files of the job directory while this process waits
    reg.contract("IPLock.acquire", params=["self", "blocking", "timeout"], defaults={"blocking": "True", "timeout": "None"},
                 types={"self": "IPLock"}, returns="bool", modifies=["self.acquired"], awaits=True,
                 ensures=["result == self.acquired"], effect="iplock.acquire")
    reg.contract("IPLock.release", params=["self"], types={"self": "IPLock"}, modifies=["self.acquired"], effect="iplock.release",
                 ensures=["self.acquired == False"], raises={"Exception": {"when": [], "modifies": []}})
    reg.contract("IPLock.__enter__", params=["self"], types={"self": "IPLock"}, returns="IPLock", modifies=["self.acquired"], awaits=True,
                 ensures=["result is self", "self.acquired == True"], effect="iplock.acquire")      # `with lock:` blocks until the lock is held
    reg.contract("IPLock.__exit__", params=["self"], types={"self": "IPLock"}, modifies=["self.acquired"], effect="iplock.release")
    reg.contract("report_eoj", params=[], modifies=[], effect="report_eoj")
    # the task body: opaque; assumed not to create or delete the runner's marker files (.done / .failed / .pid)
    reg.contract("run", params=["parameters"], modifies=[], effect="body",
                 raises={"Exception": {"when": [], "modifies": [], "effect": "body"},
                         "SystemExit": {"when": [], "modifies": [], "value": "exit_code_of_body", "effect": "body"}})
    import z3
    from pyvc.vals import Val
    from pyvc.state import V
    # (environment: a task body that exits does so with an integer status)
    reg.consts["exit_code_of_body"] = ("term", V(Val.IntV(z3.Int("exit_code_of_body")), "int"))

    eng.load("rmfile", "run.py", inline=True)
    eng.load("TaskRunner.run", "run.py")
    eng.load("TaskRunner.cleanup", "run.py")
    eng.load("TaskRunner.handle_error", "run.py")

    DISTINCT = ["self.donepath == self.scriptpath.with_suffix('.done')", "self.failedpath == self.scriptpath.with_suffix('.failed')",
                "self.pidfile == self.scriptpath.with_suffix('.pid')",      # established by TaskRunner.__init__
                # environment: the marker files of a job directory are regular files when they exist
                "(isabsent(self.donepath) or isregular(self.donepath)) and (isabsent(self.failedpath) or isregular(self.failedpath)) "
                "and (isabsent(self.pidfile) or isregular(self.pidfile))"]
    reg.contract("TaskRunner.cleanup", params=["self"], types={"self": "TaskRunner"},
                 requires=DISTINCT,
                 ensures=[("C10", "self.cleaned == True"),
                          ("C10", "implies(not old(self.cleaned), not isfile(self.pidfile))"),
                          ("C10", "isfile(self.donepath) == old(isfile(self.donepath)) and isfile(self.failedpath) == old(isfile(self.failedpath))")],
                 # the only file cleanup removes is the pid file (a lock file must outlive the process: processes queued on it hold its inode)
                 effect_guards={"unlink": [(("C05", "C10"), "_arg0 == self.pidfile")]},
                 modifies=["self.cleaned", "fs(self.pidfile)", "*.acquired"], effect="cleanup")
    reg.contract("TaskRunner.handle_error", params=["self", "code", "frame_type"], types={"self": "TaskRunner"},
                 requires=DISTINCT, never_returns=True,
                 raises={"SystemExit": {"when": [],
                                        "ensures": [("C10", "isregular(self.failedpath)"),
                                                    ("C10", "isfile(self.donepath) == old(isfile(self.donepath))"),
                                                    ("C10", "excval == 1"),
                                                    ("C10", "self.cleaned == True and implies(not old(self.cleaned), not isfile(self.pidfile))")],
                                        "modifies": ["self.cleaned", "fs(self.pidfile)", "fs(self.failedpath)", "*.acquired"],
                                        "value": "1"}},
                 modifies=["self.cleaned", "fs(self.pidfile)", "fs(self.failedpath)", "*.acquired"], effect="handle_error")
    reg.contract("TaskRunner.run", unreachable_ok=['if sys.platform != "win32":   [never false]'], params=["self"], types={"self": "TaskRunner"},
                 requires=DISTINCT + ["self.cleaned == False", "length(self.locks) == 0", "self.started == False"],
                 ensures=[("C10", "isfile(self.donepath)"),      # normal return: only the "already completed" branch
                          (("C10", "C05"), "no_effect('body')")],
                 raises={"SystemExit": {"when": [],
                                        "ensures": [
                                            ("C10", "implies(excval == 0, isfile(self.donepath) and effect('body'))"),
                                            ("C10", "implies(excval != 0, isfile(self.failedpath) and no_effect('touch'))"),      # failure marker, and no success marker written by this process
                                            # no pid file is left behind: removed by cleanup now, or cleanup is still registered for interpreter exit
                                            ("C10", "not isfile(self.pidfile) or effect_count('atexit.register') > effect_count('atexit.unregister')"),
                                        ]}},
                 effect_guards={
                     # the handlers and the exit cleanup are dropped in forked *children* only, never in the job process itself
                     "register_at_fork": [("C10", "isnone(_arg0) and isnone(_arg1)")],
                     # the runner writes nothing but its markers (written by handle_error / touch): in particular never a lock file,
                     # whose rewriting would release the POSIX lock held on it
                     "write_text": [(("C05", "C10"), "False")], "file.write": [(("C05", "C10"), "False")],
                     "touch": [("C10", "_arg0 == self.donepath and effect('body')"),
                               # the success marker is written while every job lock is still held: a process waiting for the lock
                               # sees the marker as soon as it gets the lock (otherwise it would run the body again)
                               (("C05", "C10"), "length(self.locks) == length(self.lockfiles) and forall(k, 0, length(self.locks), at(self.locks, k).acquired)")],
                     "body": [(("C10", "C05"), "not isfile(self.donepath) and length(self.locks) == length(self.lockfiles) "
                                              "and forall(k, 0, length(self.locks), at(self.locks, k).acquired)"),
                              ("C10", "not isfile(self.failedpath)"),
                              # both termination signals are diverted (to handle_error: failure marker, cleanup, exit 1) before the body starts
                              ("C10", "effect_with_arg('signal.signal', 0, signal.SIGTERM) and effect_with_arg('signal.signal', 0, signal.SIGINT)")],
                 },
                 modifies=None,
                 # while blocked on a lock file other processes change the job directory (environment: markers stay regular files)
                 interference={"shared": ["$fs_kind", "$fs_text", "$fs_target"], "guarantee": [],
                               "rely": ["(isabsent(self.donepath) or isregular(self.donepath)) and (isabsent(self.failedpath) or isregular(self.failedpath)) "
                                        "and (isabsent(self.pidfile) or isregular(self.pidfile))"]},
                 loops={"lockfile": {"invariants": ["length(self.locks) == _i", "forall(k, 0, _i, at(self.locks, k).acquired)",
                                                    "(isabsent(self.donepath) or isregular(self.donepath)) and (isabsent(self.failedpath) or isregular(self.failedpath)) "
                                                    "and (isabsent(self.pidfile) or isregular(self.pidfile))"]}})
