"""launcherfinder/specs.py — host requirements (C18)."""
import z3
from pyvc.vals import *      # noqa
from pyvc.state import V

matches = z3.Function("req_matches", Val, Val, z3.BoolSort())    # ghost: requirement matches host


def declare(reg, eng):
    M = "experimaestro.launcherfinder.specs:"
    reg.klass("CudaSpecification", [], {"memory": "int", "model": "str", "min_memory": "int"}, real=M + "CudaSpecification")
    reg.klass("CPUSpecification", [], {"memory": "int", "cores": "int", "mem_per_cpu": "int", "cpu_per_gpu": "int"}, real=M + "CPUSpecification")
    reg.klass("HostSpecification", [], {"cuda": "list[CudaSpecification]", "cpu": "CPUSpecification", "priority": "int",
                                        "max_duration": "int", "min_gpu": "int"}, real=M + "HostSpecification")
    reg.klass("MatchRequirement", [], {"score": "int", "requirement": "HostSimpleRequirement"}, real=M + "MatchRequirement")
    reg.klass("HostRequirement", [], {})
    reg.klass("HostSimpleRequirement", ["HostRequirement"], {"cuda_gpus": "list[CudaSpecification]", "cpu": "CPUSpecification", "duration": "int"},
              real=M + "HostSimpleRequirement")
    reg.klass("RequirementUnion", ["HostRequirement"], {"requirements": "list[HostSimpleRequirement]"}, real=M + "RequirementUnion")

    reg.specfuns["matches"] = lambda e, st, a: V(BoolV(matches(a[0].t, a[1].t)), "bool")

    for k in ("CudaSpecification.match", "CudaSpecification.__lt__", "CPUSpecification.__lt__"):
        eng.load(k, "launcherfinder/specs.py", inline=True)
    for k in ("HostSimpleRequirement.match", "HostSimpleRequirement._add", "HostSimpleRequirement.__and__",
              "HostSimpleRequirement.__mul__", "RequirementUnion.match"):
        eng.load(k, "launcherfinder/specs.py")

    # dataclass-generated constructors (assumed: field-wise initialisation)
    reg.contract("MatchRequirement.__init__", params=["self", "score", "requirement"], modifies=["self.score", "self.requirement"],
                 ensures=["self.score == score", "self.requirement is requirement"])

    SAT = ("length(host.cuda) >= length(self.cuda_gpus) and "
           "forall(k, 0, length(self.cuda_gpus), at(host.cuda, k).memory >= at(self.cuda_gpus, k).memory) and "
           "host.cpu.memory >= self.cpu.memory and host.cpu.cores >= self.cpu.cores and "
           "(host.max_duration <= 0 or self.duration <= host.max_duration)")
    reg.contract("HostSimpleRequirement.match", params=["self", "host"],
                 types={"self": "HostSimpleRequirement", "host": "HostSpecification"}, returns="opt:MatchRequirement",
                 ensures=[("C18", f"implies(not isnone(result), {SAT})"),
                          ("C18", "implies(not isnone(result), result.requirement is self and result.score == host.priority)"),
                          ("ASSUME", "isnone(result) == (not matches(self, host))")],     # definition of the ghost predicate used by the union
                 modifies=[],
                 loops={"(host_gpu, req_gpu)": {"invariants": [
                     "forall(k, 0, _i, at(host.cuda, k).memory >= at(self.cuda_gpus, k).memory)"]}})

    reg.contract("HostSimpleRequirement._add", params=["self", "req"],
                 types={"self": "HostSimpleRequirement", "req": "HostSimpleRequirement"},
                 requires=["self.cpu is not req.cpu", "self.cuda_gpus is not req.cuda_gpus"],
                 ensures=["self.cpu.memory == max(old(self.cpu.memory), req.cpu.memory)",
                          "self.cpu.cores == max(old(self.cpu.cores), req.cpu.cores)",
                          "self.duration == max(old(self.duration), req.duration)",
                          "length(self.cuda_gpus) == old(length(self.cuda_gpus)) + length(req.cuda_gpus)"],
                 modifies=["self.cpu.memory", "self.cpu.cores", "self.duration", "elems(self.cuda_gpus)"])

    reg.contract("HostSimpleRequirement.__and__", params=["self", "other"],
                 types={"self": "HostSimpleRequirement", "other": "HostSimpleRequirement"}, returns="HostSimpleRequirement",
                 ensures=[("C18", "isfresh(result) and isfresh(result.cpu) and isfresh(result.cuda_gpus)"),
                          ("C18", "result.cpu.memory == max(self.cpu.memory, other.cpu.memory)"),
                          ("C18", "result.cpu.cores == max(self.cpu.cores, other.cpu.cores)"),
                          ("C18", "result.duration == max(self.duration, other.duration)"),
                          ("C18", "length(result.cuda_gpus) == length(self.cuda_gpus) + length(other.cuda_gpus)")],
                 modifies=[])      # C18: combining never alters the operands (nothing reachable before the call is written)

    reg.contract("HostSimpleRequirement.__mul__", params=["self", "count"],
                 types={"self": "HostSimpleRequirement", "count": "int"}, returns="HostSimpleRequirement",
                 requires=["count >= 1"],
                 ensures=[("C18", "implies(count == 1, result is self)"),
                          ("C18", "implies(count >= 2, isfresh(result) and isfresh(result.cpu) and isfresh(result.cuda_gpus))"),
                          ("C18", "result.cpu.memory == self.cpu.memory and result.cpu.cores == self.cpu.cores and result.duration == self.duration"),
                          # NOT stated as a post-condition: "length(result.cuda_gpus) == count * length(self.cuda_gpus)". The accumulation
                          # is proved as the loop invariant below ((_i + 1) * L after iteration _i); carrying it over the final
                          # `.sort()` combines nonlinear arithmetic with the quantified sortedness facts, and that one query was
                          # unstable (0.5 s idle, 4 - 33 s depending on the hash seed, `unknown` in every back end once). The
                          # statement is checked on real objects by the bounded suite ("request * n is n copies of the GPU list").
                          ("C18", "implies(count >= 2, length(result.cuda_gpus) >= length(self.cuda_gpus))")],
                 modifies=[],
                 loops={"_": {"invariants": ["length(_self.cuda_gpus) == (_i + 1) * length(self.cuda_gpus)",
                                             "_self.cpu.memory == self.cpu.memory and _self.cpu.cores == self.cpu.cores and _self.duration == self.duration",
                                             "isfresh(_self) and isfresh(_self.cpu) and isfresh(_self.cuda_gpus)"]}})

    FIRST = ("exists(k, 0, %s, result.requirement is at(self.requirements, k) and matches(at(self.requirements, k), host) "
             "and forall(j, 0, k, not matches(at(self.requirements, j), host)))")
    reg.contract("RequirementUnion.match", params=["self", "host"], types={"self": "RequirementUnion", "host": "HostSpecification"},
                 returns="opt:MatchRequirement",
                 requires=["host.priority > -100000000000000000000000000000"],     # float('-inf') is modelled as -1e30 (mathematical reals)
                 ensures=[("C18", "implies(isnone(result), forall(k, 0, length(self.requirements), not matches(at(self.requirements, k), host)))"),
                          ("C18", "implies(not isnone(result), " + FIRST % "length(self.requirements)" + ")")],
                 modifies=[],
                 loops={"req": {"invariants": [
                     "implies(isnone(argmax), forall(k, 0, _i, not matches(at(self.requirements, k), host)))",
                     "implies(not isnone(argmax), argmax.score == host.priority and " + (FIRST % "_i").replace("result.", "argmax.") + ")"]}})
