"""core/objects.py, generators.py, types.ObjectType.deprecate — configuration objects (C01-C03, C14, C15, C17, C20)."""
import z3
from pyvc.vals import *      # noqa
from pyvc.state import V


def declare(reg, eng):
    O = "experimaestro.core.objects:"
    reg.klass("Generator")
    reg.klass("TypeIdentifier", [], {"name": "str"})
    reg.classes["ObjectType"]["fields"]["identifier"] = "TypeIdentifier"
    reg.klass("Argument", [], {"name": "str", "generator": "opt:Generator", "constant": "bool", "required": "bool", "ignored": "bool",
                               "default": None, "type": "Type", "is_data": "bool", "checker": None})
    reg.classes["ObjectType"]["fields"].update({"arguments": "dict[str,Argument]", "_arguments": "dict[str,Argument]"})
    reg.classes["ConfigInformation"]["fields"].update({
        "pyobject": "Config", "xpmtype": "ObjectType", "values": "dict[str,any]", "_sealed": "bool", "_meta": None,
        "pre_tasks": "list[Config]", "init_tasks": "list[Config]", "task": "opt:Config", "loaded": "bool", "_validated": "bool",
        "_raw_identifier": "opt:Identifier", "_full_identifier": "opt:Identifier", "dependencies": "list", "_initinfo": "str"})
    reg.classes["ConfigInformation"]["real"] = O + "ConfigInformation"
    reg.klass("TypeConfig", ["Config"], {})
    reg.klass("LightweightTask", ["Config"], {})
    reg.klass("Task", ["LightweightTask"], {})
    reg.klass("Identifier", [], {"main": "bytes", "has_loops": "bool"}, real=O + "Identifier")
    reg.klass("ConfigPath", [], {"loops": "list[bool]", "config2index": "dict[int,int]"}, real=O + "ConfigPath",
              dict_facts={"config2index": "_v >= 0"})      # positions in the stack (written by ConfigPath.push only)
    reg.klass("ConfigWalkContext", [], {"_configpath": "opt:Path", "path": "Path"}, real=O + "ConfigWalkContext")
    reg.klass("PathGenerator", [], {"path": None}, real="experimaestro.generators:PathGenerator")
    reg.klass("HashComputer", [], {"config": "Config", "config_path": "ConfigPath", "version": "int", "_hasher": None})
    eng.properties["ObjectType.arguments"] = False
    eng.properties.pop("ObjectType.arguments", None)

    # ---- C14 / C15: assignment on configurations
    eng.load("ConfigInformation.set", "core/objects.py")
    eng.load("ConfigInformation.set_meta", "core/objects.py")
    eng.load("TypeConfig.add_pretasks", "core/objects.py")
    reg.contract("setattr", params=["obj", "name", "value"], modifies=[], effect="setattr")
    reg.contract("Argument.validate", params=["self", "value"], types={"self": "Argument"}, modifies=[],
                 ensures=["hastype(self.type, result)"],
                 raises={"TypeError": {"when": []}, "ValueError": {"when": []}, "AssertionError": {"when": []}})
    NOCHANGE = "dict_unchanged(self.values)"
    reg.contract("ConfigInformation.set", unreachable_ok=['raise AttributeError(', 'if argument:   [never false]'], params=["self", "k", "v", "bypass"], defaults={"bypass": "False"},
                 types={"self": "ConfigInformation", "k": "str", "bypass": "bool"},
                 requires=["self.values is not self.xpmtype.arguments"],
                 ensures=[("C15", "implies(haskey(self.xpmtype.arguments, k) and not isnone(v), hastype(lookup(self.xpmtype.arguments, k).type, lookup(self.values, k)))"),
                          ("C15", "implies(haskey(self.xpmtype.arguments, k) and isnone(v), isnone(lookup(self.values, k)) and not lookup(self.xpmtype.arguments, k).required)"),
                          (("C14", "C15"), "implies(haskey(self.xpmtype.arguments, k), not self._sealed or bypass)"),
                          ("C15", "implies(haskey(self.xpmtype.arguments, k) and not bypass, isnone(lookup(self.xpmtype.arguments, k).generator) "
                                  "and not lookup(self.xpmtype.arguments, k).constant)"),
                          ("C14", "implies(not haskey(self.xpmtype.arguments, k), " + NOCHANGE + ")")],
                 raises={"AttributeError": {"when": [], "ensures": [(("C14", "C15"), NOCHANGE)]},
                         "TypeError": {"when": [], "ensures": [NOCHANGE]}, "ValueError": {"when": [], "ensures": [NOCHANGE]},
                         "AssertionError": {"when": [], "ensures": [NOCHANGE]}},
                 modifies=["dict(self.values)"])
    reg.contract("ConfigInformation.set_meta", params=["self", "value"], types={"self": "ConfigInformation"},
                 ensures=[("C14", "not self._sealed"), "self._meta is value"],
                 raises={"AssertionError": {"when": [("C14", "self._sealed")], "ensures": [("C14", "self._meta is old(self._meta)")]}},
                 modifies=["self._meta"])
    reg.contract("TypeConfig.add_pretasks", params=["self", "tasks"], types={"self": "TypeConfig", "tasks": "tuple"},
                 returns="TypeConfig",
                 ensures=[("C14", "not self.__xpm__._sealed"), "result is self",
                          "length(self.__xpm__.pre_tasks) == old(length(self.__xpm__.pre_tasks)) + length(tasks)"],
                 raises={"SealedError": {"when": [("C14", "self.__xpm__._sealed")], "ensures": [("C14", "seq_eq(self.__xpm__.pre_tasks, old(self.__xpm__.pre_tasks))")]},
                         "AssertionError": {"when": [], "ensures": [("C14", "seq_eq(self.__xpm__.pre_tasks, old(self.__xpm__.pre_tasks))")]}},
                 modifies=["elems(self.__xpm__.pre_tasks)"])

    eng.load("TypeConfig.add_pretasks_from", "core/objects.py")
    UNCH = "seq_eq(self.__xpm__.pre_tasks, old(self.__xpm__.pre_tasks))"
    reg.contract("TypeConfig.add_pretasks_from", params=["self", "configs"], types={"self": "TypeConfig", "configs": "tuple[TypeConfig]"},
                 returns="TypeConfig",
                 # the second entry point for attaching pre-tasks is guarded like the first: nothing is added to a sealed configuration
                 ensures=[("C14", "not self.__xpm__._sealed or length(configs) == 0"), "result is self",
                          ("C14", "implies(self.__xpm__._sealed, " + UNCH + ")")],
                 raises={"SealedError": {"when": [("C14", "self.__xpm__._sealed")], "ensures": [("C14", UNCH)]},
                         "AssertionError": {"when": [], "ensures": [("C14", "implies(self.__xpm__._sealed, " + UNCH + ")")]}},
                 modifies=["elems(self.__xpm__.pre_tasks)"],
                 loops={"config": {"invariants": ["implies(_i > 0, not self.__xpm__._sealed)", "implies(self.__xpm__._sealed, " + UNCH + ")"]}})

    # ---- C01: cycle bookkeeping and identifier cache
    eng.load("ConfigPath.detect_loop", "core/objects.py")
    eng.load("ConfigPath.has_loop", "core/objects.py", inline=True)
    eng.load("ConfigPath.depth", "core/objects.py", inline=True)
    reg.contract("ConfigPath.detect_loop", params=["self", "config"], types={"self": "ConfigPath"}, returns="opt:int",
                 ensures=[("C01", "implies(old(haskey(self.config2index, id(config))), result == length(self.loops) - lookup(self.config2index, id(config)))"),
                          ("C01", "implies(not old(haskey(self.config2index, id(config))), isnone(result) and seq_eq(self.loops, old(self.loops)))"),
                          ("C01", "length(self.loops) == old(length(self.loops))"),
                          # the entry of the configuration that closes the cycle (the head) is flagged as soon as the stack is not empty above it
                          ("C01", "implies(old(haskey(self.config2index, id(config))) and lookup(self.config2index, id(config)) < length(self.loops), "
                                  "at(self.loops, lookup(self.config2index, id(config))) == True)")],
                 modifies=["elems(self.loops)"],
                 loops={"i": {"no_break": True,
                              "invariants": ["length(self.loops) == old(length(self.loops))",
                                             "implies(_i >= 1, at(self.loops, index) == True)"],
                              # every iteration flags the entry it visits; the iteration starts at the head of the cycle
                              "body_post": [("C01", "at(self.loops, i) == True"), ("C01", "i >= index")]}})

    # ---- C17: generated paths
    eng.load("PathGenerator.__call__", "generators.py")
    eng.load("ConfigWalkContext.currentpath", "core/objects.py")
    reg.contract("inspect.isfunction", params=["f"], returns="bool", modifies=[], ensures=["implies(isstr(f) or ispath(f), not result)"])
    reg.contract("ConfigWalkContext.currentpath", params=["self"], types={"self": "ConfigWalkContext"}, returns="Path", modifies=[],
                 ensures=[("C17", "result == ite(isnone(self._configpath), self.path, p_joinp(self.path, self._configpath))")])
    reg.contract("PathGenerator.__call__", unreachable_ok=['path = context.currentpath() / self.path(context, config)  # type: Path', 'if inspect.isfunction(self.path):   [never true]'], params=["self", "context", "config"], types={"self": "PathGenerator", "context": "ConfigWalkContext"},
                 returns="Path", modifies=[],
                 requires=["isstr(self.path) or ispath(self.path)"],      # the callable form delegates to user code: not claimed
                 ensures=[("C17", "result == p_joinp(ite(isnone(context._configpath), context.path, p_joinp(context.path, context._configpath)), Path(self.path))")])

    # ---- C20: deprecation
    eng.load("ObjectType.deprecate", "core/types.py")
    reg.klass("PyClass", [], {"__bases__": "tuple[PyClass]"})
    reg.classes["ObjectType"]["fields"]["basetype"] = "PyClass"
    reg.contract("PyClass.__getxpmtype__", params=["self"], returns="ObjectType", modifies=[], ensures=["result is xpmtype_of(self)"])
    xpmtype_of = z3.Function("xpmtype_of", Val, Val)
    reg.specfuns["xpmtype_of"] = lambda e, st, a: V(xpmtype_of(a[0].t), "ObjectType")
    reg.klass("RuntimeError", ["Exception"], exc=True)
    reg.contract("ObjectType.deprecate", params=["self"], types={"self": "ObjectType"},
                 ensures=[("C20", "self.identifier is xpmtype_of(at(self.basetype.__bases__, 0, PyClass)).identifier"),
                          ("C20", "self._deprecated_identifier is old(self.identifier)"),
                          ("C20", "self._deprecated == True")],
                 raises={"RuntimeError": {"when": [("C20", "length(self.basetype.__bases__) != 1")], "modifies": []},
                         "AssertionError": {"when": [("C20", "old(self._deprecated)")], "modifies": []}},
                 modifies=["self.identifier", "self._deprecated_identifier", "self._deprecated"])

    # ---- C04: dependency collection (local closure of the recursive walk; ML2 = structural induction over values)
    eng.load("updatedependencies", "core/objects.py")
    eng.load("ConfigInformation.updatedependencies", "core/objects.py")
    reg.klass("NotImplementedError", ["Exception"], exc=True)
    reg.contract("updatedependencies", params=["dependencies", "value", "path", "taskids"],
                 types={"dependencies": "set", "path": "list[str]", "taskids": "set[int]"},
                 effect="updatedeps", no_replay=True,
                 ensures=[("C04", "implies(isclass(value, Config), effect_with_arg('cfg.updatedeps', 0, value.__xpm__))"),
                          ("C04", "implies(isclass(value, list) or isclass(value, set), reached_loop('el'))"),
                          ("C04", "implies(isclass(value, dict), reached_loop('(key, val)'))")],
                 raises={"NotImplementedError": {"when": []}, "Exception": {"when": []}, "AssertionError": {"when": []}},
                 modifies=["elems(dependencies)", "elems(taskids)"],
                 loops={"el": {"no_break": True, "body_post": [("C04", "effect_with_arg('updatedeps', 1, el)")]},
                        "(key, val)": {"no_break": True, "body_post": [("C04", "effect_with_arg('updatedeps', 1, key) and effect_with_arg('updatedeps', 1, val)")]}})
    reg.contract("ConfigInformation.dependency", params=["self"], types={"self": "ConfigInformation"}, fresh="JobDependency", returns="JobDependency",
                 modifies=[], effect="dependency", raises={"AssertionError": {"when": []}})
    reg.contract("ConfigInformation.xpmvalues", params=["self", "generated"], defaults={"generated": "False"}, types={"self": "ConfigInformation"},
                 fresh="list", returns="list[tuple]", modifies=[])
    reg.contract("ConfigInformation.updatedependencies", params=["self", "dependencies", "path", "taskids"],
                 types={"self": "ConfigInformation", "dependencies": "set", "path": "list[str]", "taskids": "set[int]"},
                 effect="cfg.updatedeps", no_replay=True,
                 ensures=[("C04", "reached_loop('pre_task') and reached_loop('init_task')"),
                          ("C04", "implies(bool(old(self.task)) and not old(self.loaded), member(id(self.task), taskids))"),
                          # (without pre/init tasks nothing can have recorded the task before the test: the dependency is created here;
                          #  with them, a nested call may have recorded it - and created the dependency - first: not tracked)
                          ("C04", "implies(bool(old(self.task)) and not old(self.loaded) and not old(member(id(self.task), taskids)) "
                                  "and length(old(self.pre_tasks)) == 0 and length(old(self.init_tasks)) == 0, effect('dependency'))"),
                          ("C04", "implies(not (bool(old(self.task)) and not old(self.loaded)), reached_loop('(argument, value)'))")],
                 raises={"Exception": {"when": []}, "AssertionError": {"when": []}},
                 modifies=["elems(dependencies)", "elems(taskids)"],
                 loops={"pre_task": {"no_break": True, "invariants": ["implies(length(self.pre_tasks) == 0, unchanged(elems(taskids)))"],
                                     "body_post": [("C04", "effect_with_arg('cfg.updatedeps', 0, pre_task.__xpm__)")]},
                        "init_task": {"no_break": True,
                                      "invariants": ["implies(length(self.pre_tasks) == 0 and length(self.init_tasks) == 0, unchanged(elems(taskids)))"],
                                      "body_post": [("C04", "effect_with_arg('cfg.updatedeps', 0, init_task.__xpm__)")]},
                        "(argument, value)": {"no_break": True,
                                              "body_post": [("C04", "implies(not isnone(value), effect_with_arg('updatedeps', 1, value))")]}})

    # ---- C15: validation before submission
    eng.load("ConfigInformation.validate", "core/objects.py")
    eng.load("ConfigInformation._validate_value", "core/objects.py")
    reg.contract("Config.__validate__", params=["self"], modifies=[], raises={"Exception": {"when": []}}, effect="__validate__")
    reg.contract("ConfigInformation._validate_value", params=["value"], effect="validate_value", no_replay=True,
                 ensures=["monotone_true('_validated')",
                          ("C15", "implies(isclass(value, Config), effect_with_arg('cfg.validate', 0, value.__xpm__))"),
                          ("C15", "implies(isclass(value, list) or isclass(value, set), reached_loop('el'))"),
                          ("C15", "implies(isclass(value, dict), reached_loop('el'))")],
                 raises={"ValueError": {"when": []}, "Exception": {"when": []}},
                 modifies=["*._validated"],
                 loops={"el#1": {"no_break": True, "invariants": ["monotone_true('_validated')"], "body_post": [("C15", "effect_with_arg('validate_value', 0, el)")]},
                        "el#2": {"no_break": True, "invariants": ["monotone_true('_validated')"], "body_post": [("C15", "effect_with_arg('validate_value', 0, el)")]}})
    reg.contract("ConfigInformation.validate", params=["self"], types={"self": "ConfigInformation"}, effect="cfg.validate", no_replay=True,
                 ensures=["monotone_true('_validated')", ("C15", "self._validated == True"),
                          ("C15", "implies(not old(self._validated), reached_loop('(k, argument)') and reached_loop('pre_task') and reached_loop('init_task'))")],
                 # a configuration whose validation failed is not left marked as validated (it would be skipped - accepted - the next time)
                 raises={"ValueError": {"when": [], "ensures": [("C15", "not self._validated")]},
                         "Exception": {"when": [], "ensures": [("C15", "not self._validated")]}},
                 modifies=["*._validated"],
                 loops={"(k, argument)": {"no_break": True, "invariants": ["monotone_true('_validated')", "self._validated == True"], "body_post": [
                            ("C15", "implies(haskey(self.values, k) and not isnone(lookup(self.values, k)), effect_with_arg('validate_value', 0, lookup(self.values, k)))"),
                            # a required, non generated argument without value never passes (the iteration raises instead of completing)
                            ("C15", "not ((not haskey(self.values, k) or isnone(lookup(self.values, k))) and argument.required and isnone(argument.generator))")]},
                        "pre_task": {"no_break": True, "invariants": ["monotone_true('_validated')", "self._validated == True"],
                                     "body_post": [("C15", "effect_with_arg('cfg.validate', 0, pre_task.__xpm__)")]},
                        "init_task": {"no_break": True, "invariants": ["monotone_true('_validated')", "self._validated == True"],
                                      "body_post": [("C15", "effect_with_arg('cfg.validate', 0, init_task.__xpm__)")]}})

    # ---- C01: identifier cache soundness (HashComputer.compute) and caching discipline (identifiers)
    eng.load("HashComputer.compute", "core/objects.py")
    reg.klass("PushCM", [], {"cp": "ConfigPath"})
    reg.contract("ConfigPath", params=[], fresh="ConfigPath", returns="ConfigPath", modifies=[], ensures=["length(result.loops) == 0"])
    reg.contract("ConfigPath.push", params=["self", "config"], types={"self": "ConfigPath"}, fresh="PushCM", returns="PushCM", modifies=[],
                 ensures=["result.cp is self"])
    reg.contract("PushCM.__enter__", params=["self"], types={"self": "PushCM"}, modifies=["elems(self.cp.loops)", "dict(self.cp.config2index)"],
                 ensures=["length(self.cp.loops) == old(length(self.cp.loops)) + 1"], effect="path.push")
    reg.contract("PushCM.__exit__", params=["self"], types={"self": "PushCM"}, modifies=["elems(self.cp.loops)", "dict(self.cp.config2index)"],
                 requires=["length(self.cp.loops) >= 1"], ensures=["length(self.cp.loops) == old(length(self.cp.loops)) - 1"], effect="path.pop")
    reg.contract("ConfigPath.has_loop", params=["self"], types={"self": "ConfigPath"}, returns="bool", modifies=[], effect="has_loop",
                 requires=["length(self.loops) >= 1"], ensures=["result == at(self.loops, length(self.loops) - 1)"])
    eng.functions.pop("ConfigPath.has_loop", None); eng.inline_keys.discard("ConfigPath.has_loop")
    reg.contract("HashComputer", params=["config", "config_path", "version"], defaults={"version": "None"}, fresh="HashComputer", returns="HashComputer",
                 modifies=[], ensures=["result.config is config", "result.config_path is config_path"])
    reg.contract("HashComputer.update", params=["self", "value", "myself"], defaults={"myself": "False"}, types={"self": "HashComputer"},
                 modifies=["elems(self.config_path.loops)", "*.stream"], effect="hash.update",
                 ensures=["length(self.config_path.loops) == old(length(self.config_path.loops))"],
                 raises={"NotImplementedError": {"when": []}, "Exception": {"when": []}})
    reg.contract("HashComputer.identifier", params=["self"], types={"self": "HashComputer"}, fresh="Identifier", returns="Identifier", modifies=[],
                 ensures=["result.has_loops == False"], effect="hash.identifier")
    reg.contract("HashComputer.compute", params=["config", "config_path", "version"], defaults={"config_path": "None", "version": "None"},
                 types={"config": "Config", "config_path": "opt:ConfigPath"}, returns="Identifier", no_replay=True,
                 ensures=[
                     # the cached identifier is returned only when it is provably context independent
                     ("C01", "implies(no_effect('hash.update'), config.__xpm__._sealed and result is old(config.__xpm__._raw_identifier) and not result.has_loops)"),
                     # a freshly computed identifier records whether a cycle reference at or above this node was emitted below it
                     ("C01", "implies(effect('hash.update'), isfresh(result) and result.has_loops == effect_result('has_loop'))"),
                     ("C01", "implies(effect('hash.update'), effect_before('path.push', 'hash.update') and effect_before('hash.update', 'has_loop') "
                             "and effect_before('has_loop', 'path.pop') and effect_count('hash.update') == 1)"),
                     (("C01", "C14"), "config.__xpm__._raw_identifier is old(config.__xpm__._raw_identifier)"),      # compute itself never caches (only top-level, sealed results are cached, by identifiers(): Appendix A)
                     "implies(not isnone(config_path), length(config_path.loops) == old(length(config_path.loops)))"],
                 raises={"NotImplementedError": {"when": []}, "Exception": {"when": []}, "AssertionError": {"when": []}},
                 modifies=None)

    # ---- C14 / C17: sealing (the Sealer walker of ConfigInformation.seal) and identifier caching
    eng.load("ConfigInformation.seal.Sealer.postprocess", "core/objects.py", qualname="ConfigInformation.seal.Sealer.postprocess")
    eng.load("ConfigInformation.seal.Sealer.preprocess", "core/objects.py", qualname="ConfigInformation.seal.Sealer.preprocess")
    reg.klass("Sealer", [], {"context": "ConfigWalkContext"})
    reg.klass("Signature", [], {"parameters": "dict[str,any]"})
    reg.contract("inspect.signature", params=["f"], fresh="Signature", returns="Signature", modifies=[])
    reg.contract("Generator.__call__", params=["self", "context", "config"], defaults={"context": "None", "config": "None"}, modifies=[], effect="generate")
    reg.contracts["ConfigInformation.set"]["effect"] = "cfg.set"
    reg.contract("ConfigInformation.seal.Sealer.preprocess", params=["self", "config"], types={"self": "Sealer", "config": "Config"}, returns="tuple",
                 modifies=[], ensures=[("C14", "at(result, 0) == (not config.__xpm__._sealed) and at(result, 1) is config")])
    reg.contract("ConfigInformation.seal.Sealer.postprocess", params=["self", "stub", "config", "values"],
                 types={"self": "Sealer", "config": "Config"}, no_replay=True,
                 requires=["config.__xpm__.values is not config.__xpm__.xpmtype.arguments"],
                 ensures=[("C14", "config.__xpm__._sealed == True"), ("C17", "reached_loop('(k, argument)')")],
                 raises={"AttributeError": {"when": []}, "Exception": {"when": []}, "AssertionError": {"when": []}},
                 modifies=None, track_writes=["_sealed"],
                 effect_guards={"write:_sealed": [("C14", "_arg0 is config.__xpm__ and _arg1 == True")]},
                 loops={"(k, argument)": {"no_break": True, "body_post": [
                     # every generated argument is produced from the walk context at this node and stored bypassing the seal
                     ("C17", "implies(not isnone(argument.generator), effect('generate') and effect_with_arg('cfg.set', 0, config.__xpm__) "
                             "and effect_arg('cfg.set', 1) == k and effect_arg('cfg.set', 3) == True)"),
                     ("C17", "implies(isnone(argument.generator), no_effect('cfg.set'))")]}})
    declare_walk(reg, eng)


def declare_walk(reg, eng):
    """ConfigWalk.__call__ (C17, and the traversal every walker - Sealer, FromPython, PreTaskCollect - inherits): every element of a
    list / dict / argument table is visited *inside* the context entry of its own position (index, key, argument name), and the
    position is popped afterwards; the context path is the same before and after a visit (ML2: the contract is used for the
    recursive calls).  The hooks stub / preprocess / postprocess are opaque (assumed not to touch the walker's own fields)."""
    eng.load("ConfigWalk.__call__", "core/objects.py")
    eng.load("ConfigWalk.list", "core/objects.py", inline=True)
    eng.load("ConfigWalk.map", "core/objects.py", inline=True)
    reg.klass("ConfigWalk", [], {"context": "ConfigWalkContext", "visited": "dict", "recurse_task": "bool"})
    reg.klass("WalkCM", [], {"ctx": "ConfigWalkContext", "key": None, "saved": "opt:Path"})
    # trusted: @contextmanager generator (try: set; yield; finally: restore)
    reg.contract("ConfigWalkContext.push", params=["self", "key"], types={"self": "ConfigWalkContext"}, fresh="WalkCM", returns="WalkCM", modifies=[],
                 ensures=["result.ctx is self", "result.key == key"])
    reg.contract("WalkCM.__enter__", params=["self"], types={"self": "WalkCM"}, modifies=["self.ctx._configpath", "self.saved"], effect="walk.push",
                 ensures=["self.saved == old(self.ctx._configpath)", "not isnone(self.ctx._configpath)"])
    reg.contract("WalkCM.__exit__", params=["self"], types={"self": "WalkCM"}, modifies=["self.ctx._configpath"], effect="walk.pop",
                 no_yield=True, ensures=["self.ctx._configpath == self.saved"])
    reg.contract("ConfigWalk.stub", params=["self", "config"], modifies=[], effect="walk.stub")
    reg.contract("ConfigWalk.preprocess", params=["self", "config"], returns="tuple", fresh="tuple", modifies=[], ensures=["length(result) == 2"], effect="walk.pre")
    reg.contract("ConfigWalk.postprocess", params=["self", "stub", "config", "values"], modifies=[], effect="walk.post",
                 raises={"Exception": {"when": [], "modifies": []}})
    VISIT = ("effect_count('walk.push') == 1 and effect_arg('walk.push', 0).key == %s and effect_count('walk.call') == 1 and effect_arg('walk.call', 1) is %s "
             "and effect_count('walk.pop') == 1 and effect_before('walk.push', 'walk.call') and effect_before('walk.call', 'walk.pop')")
    reg.contract("ConfigWalk.__call__", params=["self", "x"], types={"self": "ConfigWalk"}, no_replay=True, effect="walk.call",
                 ensures=[("C17", "self.context._configpath == old(self.context._configpath)"),
                          ("C17", "implies(isclass(x, list), reached_loop('(i, sv)'))"),
                          ("C17", "implies(isclass(x, dict), reached_loop('(key, value)'))")],
                 raises={"NotImplementedError": {"when": []}, "Exception": {"when": []}, "AssertionError": {"when": []}},
                 modifies=None,
                 loops={"(i, sv)": {"no_break": True, "invariants": ["self.context._configpath == old(self.context._configpath)"],
                                    "body_post": [("C17", VISIT % ("str(i)", "sv"))]},
                        "(key, value)": {"no_break": True, "invariants": ["self.context._configpath == old(self.context._configpath)"],
                                         "body_post": [("C17", VISIT % ("key", "value"))]},
                        "(arg, v)": {"no_break": True, "invariants": ["self.context._configpath == old(self.context._configpath)"],
                                     "body_post": [("C17", "implies(not isnone(v), " + VISIT % ("arg.name", "v") + ")"),
                                                   ("C17", "implies(isnone(v), no_effect_here('walk.call') and no_effect_here('walk.push'))")]}})
    reg.contracts["ConfigWalk.__call__"]["locals"] = {"arg": "Argument", "info": "ConfigInformation"}
