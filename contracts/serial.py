"""Serialisation of values (C12): ConfigInformation._outputjsonvalue / _objectFromParameters are inverse per constructor."""
import z3
from pyvc.vals import *      # noqa
from pyvc.state import V

jsonv = z3.Function("jsonv", Val, Val)        # ghost: encoded form of a value (names the result of a recursive call, ML2)
unjson = z3.Function("unjson", Val, Val, Val)  # ghost: decoded form of a JSON value given the object table


def declare(reg, eng):
    reg.klass("SerializedPath", [], {"path": None, "is_folder": "bool"})
    reg.specfuns["jsonv"] = lambda e, st, a: V(jsonv(a[0].t), None)
    reg.specfuns["unjson"] = lambda e, st, a: V(unjson(a[0].t, a[1].t), None)
    eng.load("ConfigInformation._outputjsonvalue", "core/objects.py")
    eng.load("ConfigInformation._objectFromParameters", "core/objects.py")
    reg.contract("ConfigInformation._outputjsonvalue", params=["value", "context"], modifies=[],
                 real="experimaestro.core.objects:ConfigInformation._outputjsonvalue",
                 ensures=[
                     ("ASSUME", "result == jsonv(value)"),
                     ("C12", "implies(isnone(value), isnone(result))"),
                     ("C12", "implies(isint(value) or isbool(value) or isfloat(value) or isstr(value), result is value)"),
                     ("C12", "implies(ispath(value), isclass(result, dict) and lookup(result, 'type') == 'path' and lookup(result, 'value') == str(value))"),
                     ("C12", "implies(isclass(value, Config), isclass(result, dict) and lookup(result, 'type') == 'python' and lookup(result, 'value') == id(value))"),
                     # an enum member is written with what the loader resolves it from: module, *qualified* class name, member name
                     ("C12", "implies(isclass(value, Enum), isclass(result, dict) and lookup(result, 'type') == 'enum' and lookup(result, 'module') == value.__class__.__module__ "
                             "and lookup(result, 'enum') == value.__class__.__qualname__ and lookup(result, 'value') == value.name)"),
                     ("C12", "implies(isclass(value, list), isclass(result, list) and length(result) == length(value))"),
                     ("C12", "implies(isclass(value, list), forall(k, 0, length(result), at(result, k) == jsonv(at(value, k))))"),
                     # a plain dictionary is encoded as a dictionary over (a subset of) the same keys; the decoder recognises it as
                     # long as it has no key "type" (decoder clause below) - a value with that key is the recorded finding
                     ("C12", "implies(isclass(value, dict), isclass(result, dict) and forall_keys(result, k, haskey(value, k)))"),
                 ],
                 raises={"NotImplementedError": {"when": []}},
                 loops={"el": {"invariants": ["isfresh(_comp)", "length(_comp) == _i", "forall(k, 0, _i, at(_comp, k) == jsonv(at(value, k)))"]},
                        "(name, el)": {"invariants": ["isfresh(_comp)", "forall_keys(_comp, k, haskey(value, k))"]}})
    reg.contract("ConfigInformation._objectFromParameters", params=["value", "objects"], types={"objects": "dict"}, no_replay=True, modifies=[],
                 ensures=[
                     ("ASSUME", "result == unjson(value, objects)"),
                     ("C12", "implies(not isclass(value, list) and not isclass(value, dict), result is value)"),
                     ("C12", "implies(isclass(value, dict) and haskey(value, 'type') and lookup(value, 'type') == 'path', result == Path(lookup(value, 'value')))"),
                     ("C12", "implies(isclass(value, dict) and haskey(value, 'type') and lookup(value, 'type') == 'python', result is lookup(objects, lookup(value, 'value')))"),
                     ("C12", "implies(isclass(value, list), isclass(result, list) and length(result) == length(value))"),
                     ("C12", "implies(isclass(value, list), forall(k, 0, length(result), at(result, k) == unjson(at(value, k), objects)))"),
                     ("C12", "implies(isclass(value, dict) and not haskey(value, 'type'), isclass(result, dict))"),
                 ],
                 raises={"Exception": {"when": []}, "KeyError": {"when": []}},
                 loops={"x": {"invariants": ["isfresh(_comp)", "length(_comp) == _i", "forall(k, 0, _i, at(_comp, k) == unjson(at(value, k), objects))"]}})
    reg.contract("importlib.import_module", params=["name"], modifies=[], raises={"Exception": {"when": []}})
    reg.klass("EnumClass")
    reg.contract("getqualattr", params=["module", "qualname"], returns="EnumClass", modifies=[], raises={"Exception": {"when": []}})
    reg.contract("EnumClass.__getitem__", params=["self", "name"], modifies=[], raises={"KeyError": {"when": []}})
    reg.contract("SerializedPath", params=["path", "is_folder"], fresh="SerializedPath", returns="SerializedPath", modifies=[])

    # ------------------------------------------------------------ ConfigInformation.fromParameters (C13): the pre-task / init-task part
    # of loading a parameter file: every pre-task id of the file is collected once (first occurrence, file order), each
    # collected task is executed exactly once, init tasks of the last definition are executed after all pre-tasks, in order.
    # (The object table itself - one object per definition, wiring, __post_init__ - is built by load_objects: bounded only.)
    eng.load("ConfigInformation.fromParameters", "core/objects.py")
    reg.klass("LoadedObject", [], {})       # what load_objects puts in its table: a configuration or a runtime instance
    reg.contract("ConfigInformation.load_objects", params=["definitions", "as_instance", "data_loader", "discard_id"],
                 defaults={"as_instance": "True", "data_loader": "None", "discard_id": "False"},
                 returns="dict[any,LoadedObject]", fresh="dict", modifies=[], effect="load_objects", raises={"Exception": {"when": [], "modifies": []}})
    reg.contract("LoadedObject.execute", params=["self"], modifies=[], effect="execute", raises={"Exception": {"when": [], "modifies": []}})
    SEEN0 = "at_iteration_start(member(pre_task_id, completed_pretasks))"
    reg.contract("ConfigInformation.fromParameters", params=["definitions", "as_instance", "data_loader", "discard_id", "return_tasks"],
                 defaults={"as_instance": "True", "data_loader": "None", "discard_id": "False", "return_tasks": "False"},
                 types={"definitions": "list[dict]", "as_instance": "bool", "return_tasks": "bool"}, no_replay=True,
                 # input format (what __get_objects__ writes): the task lists of a definition are lists
                 requires=["length(definitions) >= 1",
                           "forall(k, 0, length(definitions), implies(haskey(at(definitions, k), 'pre-tasks'), isclass(lookup(at(definitions, k), 'pre-tasks'), list)))",
                           "implies(haskey(at(definitions, length(definitions) - 1), 'init-tasks'), isclass(lookup(at(definitions, length(definitions) - 1), 'init-tasks'), list))"],
                 ensures=[("C13", "implies(as_instance, reached_loop('pre_task') and reached_loop('init_task') and effect_before('loop:pre_task', 'loop:init_task'))"),
                          ("C13", "effect_count('load_objects') == 1")],
                 raises={"Exception": {"when": []}, "KeyError": {"when": []}, "NameError": {"when": [], "ensures": ["not as_instance"]},
                         "UnboundLocalError": {"when": [], "ensures": ["not as_instance"]}},
                 modifies=[],
                 loops={
                     # an id already seen is skipped; a new id is recorded and its object appended - once
                     "pre_task_id": {"no_break": True, "body_post": [
                         ("C13", "member(pre_task_id, completed_pretasks)"),
                         ("C13", f"implies({SEEN0}, length(pre_tasks) == at_iteration_start(length(pre_tasks)))"),
                         ("C13", f"implies(not {SEEN0}, length(pre_tasks) == at_iteration_start(length(pre_tasks)) + 1 "
                                 "and at(pre_tasks, length(pre_tasks) - 1) is lookup(objects, pre_task_id))")]},
                     "definition": {"no_break": True, "body_post": [("C13", "reached_loop('pre_task_id')")]},
                     # each collected pre-task / init task is executed exactly once, the init tasks after the pre-task loop
                     "pre_task": {"no_break": True, "body_post": [("C13", "effect_count('execute') == 1 and effect_arg('execute', 0) is pre_task"),
]},
                     "init_task": {"no_break": True, "body_post": [("C13", "effect_count('execute') == 1 and effect_arg('execute', 0) is init_task"),
]},
                     "init_task_id": {"no_break": True, "body_post": [
                         ("C13", "length(init_tasks) == at_iteration_start(length(init_tasks)) + 1 and at(init_tasks, length(init_tasks) - 1) is lookup(objects, init_task_id)")]},
                 })
    reg.contracts["ConfigInformation.fromParameters"]["locals"] = {"objects": "dict[any,LoadedObject]", "pre_tasks": "list[LoadedObject]", "init_tasks": "list[LoadedObject]", "completed_pretasks": "set"}
