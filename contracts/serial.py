"""Serialisation of values (C12): ConfigInformation._outputjsonvalue / _objectFromParameters are inverse per constructor."""
import z3
from pyvc.vals import *      # noqa
from pyvc.state import V

jsonv = z3.Function("jsonv", Val, Val)        # ghost: encoded form of a value (names the result of a recursive call, ML2)
unjson = z3.Function("unjson", Val, Val, Val)  # ghost: decoded form of a JSON value given the object table


def declare(reg, eng):
    reg.klass("SerializedPath", [], {"path": None, "is_folder": "bool"})
    reg.specfuns["jsonv"] = lambda e, st, a: V(jsonv(a[0].t), None)
    reg.specfuns["unjson"] = lambda e, st, a: V(unjson(a[0].t, a[1].t), None)
    eng.load("ConfigInformation._outputjsonvalue", "core/objects.py")
    eng.load("ConfigInformation._objectFromParameters", "core/objects.py")
    reg.contract("ConfigInformation._outputjsonvalue", params=["value", "context"], modifies=[],
                 real="experimaestro.core.objects:ConfigInformation._outputjsonvalue",
                 ensures=[
                     ("ASSUME", "result == jsonv(value)"),
                     ("C12", "implies(isnone(value), isnone(result))"),
                     ("C12", "implies(isint(value) or isbool(value) or isfloat(value) or isstr(value), result is value)"),
                     ("C12", "implies(ispath(value), isclass(result, dict) and lookup(result, 'type') == 'path' and lookup(result, 'value') == str(value))"),
                     ("C12", "implies(isclass(value, Config), isclass(result, dict) and lookup(result, 'type') == 'python' and lookup(result, 'value') == id(value))"),
                     ("C12", "implies(isclass(value, list), isclass(result, list) and length(result) == length(value))"),
                     ("C12", "implies(isclass(value, list), forall(k, 0, length(result), at(result, k) == jsonv(at(value, k))))"),
                     # a plain dictionary is encoded as a dictionary over (a subset of) the same keys; the decoder recognises it as
                     # long as it has no key "type" (decoder clause below) - a value with that key is the recorded finding
                     ("C12", "implies(isclass(value, dict), isclass(result, dict) and forall_keys(result, k, haskey(value, k)))"),
                 ],
                 raises={"NotImplementedError": {"when": []}},
                 loops={"el": {"invariants": ["isfresh(_comp)", "length(_comp) == _i", "forall(k, 0, _i, at(_comp, k) == jsonv(at(value, k)))"]},
                        "(name, el)": {"invariants": ["isfresh(_comp)", "forall_keys(_comp, k, haskey(value, k))"]}})
    reg.contract("ConfigInformation._objectFromParameters", params=["value", "objects"], types={"objects": "dict"}, no_replay=True, modifies=[],
                 ensures=[
                     ("ASSUME", "result == unjson(value, objects)"),
                     ("C12", "implies(not isclass(value, list) and not isclass(value, dict), result is value)"),
                     ("C12", "implies(isclass(value, dict) and haskey(value, 'type') and lookup(value, 'type') == 'path', result == Path(lookup(value, 'value')))"),
                     ("C12", "implies(isclass(value, dict) and haskey(value, 'type') and lookup(value, 'type') == 'python', result is lookup(objects, lookup(value, 'value')))"),
                     ("C12", "implies(isclass(value, list), isclass(result, list) and length(result) == length(value))"),
                     ("C12", "implies(isclass(value, list), forall(k, 0, length(result), at(result, k) == unjson(at(value, k), objects)))"),
                     ("C12", "implies(isclass(value, dict) and not haskey(value, 'type'), isclass(result, dict))"),
                 ],
                 raises={"Exception": {"when": []}, "KeyError": {"when": []}},
                 loops={"x": {"invariants": ["isfresh(_comp)", "length(_comp) == _i", "forall(k, 0, _i, at(_comp, k) == unjson(at(value, k), objects))"]}})
    reg.contract("importlib.import_module", params=["name"], modifies=[], raises={"Exception": {"when": []}})
    reg.klass("EnumClass")
    reg.contract("getqualattr", params=["module", "qualname"], returns="EnumClass", modifies=[], raises={"Exception": {"when": []}})
    reg.contract("EnumClass.__getitem__", params=["self", "name"], modifies=[], raises={"KeyError": {"when": []}})
    reg.contract("SerializedPath", params=["path", "is_folder"], fresh="SerializedPath", returns="SerializedPath", modifies=[])
