"""cli/jobs.py process() — `jobs list / kill / clean` (C19): what is removed or killed."""


def declare(reg, eng):
    eng.load("process", "cli/jobs.py")
    reg.klass("WorkspaceSettings", [], {"path": "Path"})
    reg.klass("FilterFn")
    reg.klass("KProcess")
    # externals
    reg.contract("createFilter", params=["query"], types={"query": "str"}, fresh="FilterFn", returns="FilterFn", modifies=[],
                 raises={"Exception": {"when": [], "modifies": []}})
    reg.contract("FilterFn.__call__", params=["self", "info"], returns="bool", modifies=[], effect="filter.call",
                 raises={"Exception": {"when": [], "modifies": []}})
    reg.contract("JobInformation", params=["path", "scriptname"], fresh="JobInformation", returns="JobInformation", modifies=[],
                 ensures=["result.path == path"])
    reg.contract("JobInformation.getprocess", params=["self"], returns="opt:KProcess", modifies=[])
    reg.contract("KProcess.kill", params=["self"], modifies=[], effect="kill")
    SELECTED = ("(not bool(filter) or (effect_here('filter.call') and effect_result('filter.call') == True and effect_arg('filter.call', 1) is info)) "
                "and (not bool(experiment) or member(experiment, xps))")
    reg.contract("process", params=["workspace", "experiment", "tags", "ready", "clean", "kill", "filter", "perform", "fullpath"],
                 defaults={"experiment": "''", "tags": "''", "ready": "False", "clean": "False", "kill": "False", "filter": "''", "perform": "False",
                           "fullpath": "False"},
                 types={"workspace": "WorkspaceSettings", "experiment": "str", "ready": "bool", "clean": "bool", "kill": "bool", "filter": "str",
                        "perform": "bool", "fullpath": "bool"},
                 no_replay=True,
                 # --ready (listing entries of jobs/ that are not directories) is not claimed: for such an entry `info` is None and the
                 # statements after the listing (`info.tags`, `info.state`) raise AttributeError (observation, DESIGN 6)
                 requires=["not ready"],
                 unreachable_ok=['print(colored(f"READY {job_path}", "yellow"), end="")', "if not ready:   [never false]"],
                 effect_guards={
                     # a job directory is removed only when cleaning was asked for *and* --perform given, for the job examined in this
                     # iteration, whose state is final, and which the filter / the experiment restriction selected
                     "rmtree": [("C19", "clean and perform and _arg0 == p and not isnone(info) and not isnone(info.state) and info.state.finished()"),
                                ("C19", SELECTED)],
                     # only a running, selected job is killed, and only with --perform
                     "kill": [("C19", "kill and perform and not isnone(info.state) and info.state.running()"), ("C19", SELECTED)]},
                 raises={"Exception": {"when": []}},
                 modifies=None)
    reg.contracts["process"]["locals"] = {"info": "opt:JobInformation", "xps": "set[str]", "job2xp": "dict[Path,set[str]]"}
