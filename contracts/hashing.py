"""HashComputer.update — conformance of the hashed byte stream to the documented encoding (C01, C02, C03)."""
import z3
from pyvc.vals import *      # noqa
from pyvc.state import V

encv = z3.Function("encv", Val, Val, BytesS)          # bytes appended by update(value, myself) in the current context
cat_enc = z3.Function("cat_enc", SeqV, Int, BytesS)   # concatenation of encv over a prefix of a sequence
cat_kv = z3.Function("cat_kv", SeqV, Int, BytesS)     # same for a sequence of (key, value) tuples: encv(key) ++ encv(value)


def declare(reg, eng):
    reg.klass("Hasher", [], {"stream": "bytes"})
    reg.classes["HashComputer"]["fields"]["_hasher"] = "Hasher"
    reg.klass("Logger")
    reg.consts["hash_logger"] = ("term", V(RefV(-777002), "Logger"))
    reg.const("logging.DEBUG", "int", 10)
    reg.contract("Logger.isEnabledFor", params=["self", "level"], returns="bool", modifies=[])
    reg.contract("Hasher.update", params=["self", "b"], types={"self": "Hasher", "b": "bytes"}, modifies=["self.stream"],
                 ensures=["self.stream == old(self.stream) + b"])

    def sf_encv(e, st, a):
        my = a[1].t if len(a) > 1 else FALSE
        return V(Val.BytesV(encv(a[0].t, my)), "bytes")

    def unfold(fn, item_bytes):
        def sf(e, st, a):
            seq = e.elems(st, a[0]); i = vi(a[1].t)
            facts = [fn(seq, 0) == z3.Empty(BytesS),
                     z3.Implies(i >= 0, fn(seq, i + 1) == z3.Concat(fn(seq, i), item_bytes(e, st, seq, i)))]
            for f in facts:
                st.assume(f)
                if f.get_id() not in e._gf_ids:
                    e._gf_ids.add(f.get_id()); e.global_facts.append(f)
            return V(Val.BytesV(fn(seq, i)), "bytes")
        return sf

    def kv_bytes(e, st, seq, i):
        tup = z3.Select(st.field("$elems"), vr(seq[i]))
        return z3.Concat(encv(tup[0], FALSE), encv(tup[1], FALSE))
    reg.specfuns.update(
        encv=sf_encv,
        catenc=unfold(cat_enc, lambda e, st, seq, i: encv(seq[i], FALSE)),
        catkv=unfold(cat_kv, kv_bytes),
        pack_q=lambda e, st, a: V(Val.BytesV(pack_q(z3.If(Val.is_BoolV(a[0].t), z3.If(vb(a[0].t), 1, 0), vi(a[0].t)))), "bytes"),
        pack_d=lambda e, st, a: V(Val.BytesV(pack_d(vf(a[0].t))), "bytes"),
        pack_d_int=lambda e, st, a: V(Val.BytesV(pack_d_int(vi(a[0].t))), "bytes"),
        utf8=lambda e, st, a: V(Val.BytesV(utf8(vs(a[0].t))), "bytes"),
        is_meta=lambda e, st, a: V(BoolV(z3.And(Val.is_RefV(a[0].t), e.isinstance_term(st, a[0], ["Config"]),
                                                  e.truth(st, V(st.read("_meta", vr(st.read("__xpm__", vr(a[0].t)))), None)))), "bool"))

    rm = z3.Function("remove_meta_of", Val, Val)
    reg.specfuns["remove_meta_of"] = lambda e, st, a: V(rm(a[0].t), None)
    reg.contract("remove_meta", params=["value"], modifies=[], ensures=["result == remove_meta_of(value)"])
    eng.load("HashComputer._hashupdate", "core/objects.py")
    eng.load("HashComputer.update", "core/objects.py")
    eng.load("is_ignored", "core/objects.py", inline=True)
    eng.load("ConfigInformation.meta", "core/objects.py", inline=True)
    reg.contract("HashComputer._hashupdate", params=["self", "bytes"], types={"self": "HashComputer", "bytes": "bytes"},
                 ensures=[(("C01", "C03"), "self._hasher.stream == old(self._hasher.stream) + bytes")],
                 modifies=["self._hasher.stream"], effect="hashupdate")

    RAW = "ite(haskey(value.__xpm__.values, argument.name), lookup(value.__xpm__.values, argument.name), None)"
    AV = "getattr_dyn(value, argument.name)"
    SKIP = ("((argument.ignored and not (isclass(%s, Config) and %s.__xpm__._meta is False)) "
            "or (not isnone(argument.generator)) "
            "or (not argument.constant and ((not argument.required and isnone(argument.default) and isnone(%s)) "
            "    or (not isnone(argument.default) and py_equal(argument.default, remove_meta_of(%s))))) "
            "or (isclass(%s, Config) and bool(%s.__xpm__._meta)))") % (RAW, RAW, AV, AV, AV, AV)
    S, O = "self._hasher.stream", "old(self._hasher.stream)"
    c = reg.contracts["HashComputer.update"]
    c.update(dict(
        params=["self", "value", "myself"], defaults={"myself": "False"}, types={"self": "HashComputer", "myself": "bool"},
        no_replay=True,
        requires=["self._hasher is not None"],
        modifies=["elems(self.config_path.loops)", "*.stream"], effect="hash.update",
        ensures=[
            ("ASSUME", f"{S} == {O} + encv(value, myself)"),          # names the bytes appended by a (recursive) call
            ("ASSUME", "length(self.config_path.loops) == old(length(self.config_path.loops))"),   # push/pop of the cycle path are balanced
            # scalars: tag byte + fixed-width / utf-8 payload (the format constants are the pin)
            (("C01", "C03"), f"implies(isnone(value), {S} == {O} + HashComputer.NONE_ID)"),
            (("C01", "C03"), f"implies(isfloat(value), {S} == {O} + HashComputer.FLOAT_ID + pack_d(value))"),
            (("C01", "C03"), f"implies(isint(value) or isbool(value), {S} == {O} + HashComputer.INT_ID + pack_q(value))"),
            (("C01", "C03"), f"implies(isstr(value), {S} == {O} + HashComputer.STR_ID + utf8(value))"),
        ],
        ensures_locals=[
            # lists: tag, length of the list without meta-flagged configurations, then the elements in order
            (("C01", "C03"), f"implies(isclass(value, list), {S} == {O} + HashComputer.LIST_ID + pack_d_int(length(values)) + catenc(values, length(values)))"),
        ],
        raises={"NotImplementedError": {"when": []}, "Exception": {"when": []}, "struct.error": {"when": []}},
        loops={"x": {"invariants": [f"{S} == {O} + HashComputer.LIST_ID + pack_d_int(length(values)) + catenc(values, _i)"]},
               # the argument loop: what is outside the signature is not hashed (C02); what is inside is hashed as
               # name, NAME_ID, value (C03).  SKIP is written from the documentation: Meta/Option/Path parameters unless the
               # value is a configuration forced in with meta=False; generated values; a value equal to the declared default or
               # an optional left unset (never for constants); a sub-configuration flagged meta
               "argument": {"no_break": True, "body_post": [
                   ("C02", "implies(%s, no_effect('hash.update') and no_effect('hashupdate'))" % SKIP),
                   (("C02", "C03"), "implies(not %s, effect_count('hash.update') == 2 and effect_count('hashupdate') == 1 "
                                    "and effect_arg_nth('hash.update', 0, 1) == argument.name and effect_arg_nth('hashupdate', 0, 1) == HashComputer.NAME_ID "
                                    "and effect_arg_nth('hash.update', 1, 1) == %s)" % (SKIP, AV))]}},
    ))
    reg.contracts["HashComputer.update"]["locals"] = {"xpmtype": "ObjectType", "arguments": "list[Argument]"}

    # ------------------------------------------------------------ ConfigInformation.identifiers (C01, C03, C14)
    # caching discipline (a cache entry is written only for a sealed configuration and read only from one) and the
    # byte stream of the full identifier: raw identifier, pre-task identifiers in *sorted* order, init tasks in order
    eng.load("ConfigInformation.identifiers", "core/objects.py")
    sha = z3.Function("sha256_of", BytesS, BytesS)
    rawid = z3.Function("rawid_all", Val, BytesS)          # bytes of the raw identifier of a configuration (ML2: names the result of the property)
    bcat = z3.Function("cat_bytes", SeqV, Int, BytesS)     # concatenation of a prefix of a sequence of bytes values
    brid = z3.Function("cat_rawid", SeqV, Int, BytesS)     # concatenation of the raw identifiers of a prefix of a sequence of configurations
    ble = z3.Function("val_le", Val, Val, z3.BoolSort())   # the order used by sorted() on bytes
    reg.specfuns.update(
        sha256_of=lambda e, st, a: V(Val.BytesV(sha(vbs(a[0].t))), "bytes"),
        rawid_all=lambda e, st, a: V(Val.BytesV(rawid(a[0].t)), "bytes"),
        bytes_le=lambda e, st, a: V(BoolV(ble(a[0].t, a[1].t)), "bool"),
        catbytes=unfold(bcat, lambda e, st, seq, i: vbs(seq[i])),
        catrawid=unfold(brid, lambda e, st, seq, i: rawid(seq[i])))
    reg.classes["Identifier"]["fields"]["all"] = "bytes"
    reg.contract("hashlib.sha256", params=[], fresh="Hasher", returns="Hasher", modifies=[], ensures=["result.stream == b''"])
    reg.contract("Hasher.digest", params=["self"], types={"self": "Hasher"}, returns="bytes", modifies=[], ensures=["result == sha256_of(self.stream)"])
    reg.contract("Identifier", params=["main"], fresh="Identifier", returns="Identifier", modifies=[],
                 ensures=["result.main == main", "result.all == main", "result.has_loops == False"])
    reg.contract("ConfigInformation.collect_pre_tasks", params=["self"], returns="list[Config]", fresh="list", modifies=[], effect="collect_pre_tasks")
    # raw_identifier is identifiers(True)[0]: it returns before the pre-task part, and HashComputer.compute never caches, so the
    # only cache it may write is the one of its own object - under the same discipline that is proved for identifiers() below
    reg.contract("ConfigInformation.raw_identifier", params=["self"], types={"self": "ConfigInformation"}, returns="Identifier",
                 modifies=["self._raw_identifier"],
                 ensures=["result.all == rawid_all(self)",
                          "implies(not old(self._sealed) or not isnone(old(self._raw_identifier)), self._raw_identifier is old(self._raw_identifier))"],
                 raises={"Exception": {"when": [], "modifies": []}})
    eng.properties["ConfigInformation.raw_identifier"] = True
    UNSEALED_KEEPS = "implies(not old(self._sealed), self._raw_identifier is old(self._raw_identifier) and self._full_identifier is old(self._full_identifier))"
    RECOMPUTE = "(not old(self._sealed) or isnone(old(self._raw_identifier)))"
    FULLNEW = "(not only_raw and (not old(self._sealed) or isnone(old(self._full_identifier))))"
    CACHE_INV = ["implies(not old(self._sealed), self._raw_identifier is old(self._raw_identifier))",
                 "implies(old(self._sealed), self._raw_identifier is raw_identifier)",
                 "self._full_identifier is old(self._full_identifier)"]
    reg.contract("ConfigInformation.identifiers", params=["self", "only_raw"], types={"self": "ConfigInformation", "only_raw": "bool"},
                 returns="tuple", no_replay=True,
                 requires=["isclass(self.pyobject, Config)", "self.pyobject.__xpm__ is self"],
                 ensures=[
                     # nothing is cached for a configuration that can still change
                     (("C01", "C03", "C14"), UNSEALED_KEEPS),
                     # a cache entry, once written, is never replaced
                     ("C01", "implies(not isnone(old(self._raw_identifier)), self._raw_identifier is old(self._raw_identifier))"),
                     ("C01", "implies(not isnone(old(self._full_identifier)), self._full_identifier is old(self._full_identifier))"),
                     # a cached identifier is used only when sealed; otherwise the identifier is recomputed from the content
                     (("C01", "C03"), f"implies(not {RECOMPUTE}, at(result, 0) is old(self._raw_identifier) and no_effect('hash.compute'))"),
                     (("C01", "C03"), f"implies({RECOMPUTE}, effect_count('hash.compute') == 1 and at(result, 0) is effect_result('hash.compute') "
                                      "and effect_arg('hash.compute', 0) is self.pyobject)"),
                     ("C01", "implies(old(self._sealed), self._raw_identifier is at(result, 0))"),
                     ("C01", "implies(only_raw, at(result, 1) is old(self._full_identifier))"),
                     ("C01", f"implies(not only_raw and not {FULLNEW}, at(result, 1) is old(self._full_identifier))"),
                     ("C01", f"implies({FULLNEW}, isfresh(at(result, 1)) and at(result, 1).has_loops == at(result, 0).has_loops)"),
                     ("C01", "implies(not only_raw and old(self._sealed), self._full_identifier is at(result, 1))"),
                 ],
                 raises={"NotImplementedError": {"when": []}, "Exception": {"when": []}, "AssertionError": {"when": []}},
                 modifies=None,
                 loops={
                     "pre_task": {"invariants": CACHE_INV + ["isfresh(_comp)", "length(_comp) == _i", "forall(k, 0, _i, at(_comp, k) == rawid_all(at(_seq, k).__xpm__))"]},
                     # the pre-task identifiers are fed to the hash in sorted order: the result cannot depend on the order in which
                     # the walk (or a set) enumerates them
                     "task_id": {"no_break": True,
                                 "invariants": ["hasher.stream == raw_identifier.all + catbytes(_seq, _i)"],
                                 "body_post": [("C01", "implies(_i > 0, bytes_le(at(_seq, _i - 1), at(_seq, _i)))"),
                                               ("C01", "effect_count('Hasher.update') == 1 and effect_arg('Hasher.update', 1) == at(_seq, _i)")]},
                     "init_task": {"no_break": True, "invariants": CACHE_INV,
                                   "body_post": [("C01", "effect_count('Hasher.update') == 1 and effect_arg('Hasher.update', 1) == rawid_all(init_task.__xpm__)")]},
                 })
    reg.contracts["ConfigInformation.identifiers"]["locals"] = {"raw_identifier": "opt:Identifier", "full_identifier": "opt:Identifier"}
    reg.contracts["Hasher.update"]["effect"] = "Hasher.update"
    reg.contracts["HashComputer.compute"]["effect"] = "hash.compute"


    # ------------------------------------------------------------ clone (C02): the copy installed for an unset parameter keeps every value
    # that is not generated or constant - Meta / Option / Path values included - so that it stays == to the declared default
    eng.load("clone", "core/objects.py")
    clonev = z3.Function("clone_of", Val, Val)          # names the result of the recursive call (ML2)
    reg.specfuns["clone_of"] = lambda e, st, a: V(clonev(a[0].t), None)
    reg.contract("new_like", params=["obj", "kwargs"], types={"kwargs": "dict"}, fresh="Config", returns="Config", modifies=[], effect="new_like")
    KEEP = "isnone(argument.generator) and not argument.constant"
    reg.contract("clone", params=["v"], modifies=[], no_replay=True,
                 ensures=[("ASSUME", "result == clone_of(v)"),
                          ("C02", "implies(isnone(v) or isstr(v) or isint(v) or isbool(v) or isfloat(v) or ispath(v), result is v)"),
                          ("C02", "implies(isclass(v, list), isclass(result, list) and length(result) == length(v))"),
                          ("C02", "implies(isclass(v, Config), effect('new_like') and effect_arg('new_like', 0) is v and reached_loop('(argument, value)'))")],
                 raises={"NotImplementedError": {"when": []}, "Exception": {"when": []}},
                 loops={"x": {"invariants": ["isfresh(_comp)", "length(_comp) == _i"]},
                        "(argument, value)": {"no_break": True, "body_post": [
                            ("C02", "implies(" + KEEP + ", haskey(_comp, argument.name) and lookup(_comp, argument.name) == clone_of(value))"),
                            ("C02", "implies(not (" + KEEP + "), haskey(_comp, argument.name) == at_iteration_start(haskey(_comp, argument.name)))")]}})
    reg.contracts["clone"]["locals"] = {"argument": "Argument"}
