"""HashComputer.update — conformance of the hashed byte stream to the documented encoding (C01, C02, C03)."""
import z3
from pyvc.vals import *      # noqa
from pyvc.state import V

encv = z3.Function("encv", Val, Val, BytesS)          # bytes appended by update(value, myself) in the current context
cat_enc = z3.Function("cat_enc", SeqV, Int, BytesS)   # concatenation of encv over a prefix of a sequence
cat_kv = z3.Function("cat_kv", SeqV, Int, BytesS)     # same for a sequence of (key, value) tuples: encv(key) ++ encv(value)


def declare(reg, eng):
    reg.klass("Hasher", [], {"stream": "bytes"})
    reg.classes["HashComputer"]["fields"]["_hasher"] = "Hasher"
    reg.klass("Logger")
    reg.consts["hash_logger"] = ("term", V(RefV(-777002), "Logger"))
    reg.const("logging.DEBUG", "int", 10)
    reg.contract("Logger.isEnabledFor", params=["self", "level"], returns="bool", modifies=[])
    reg.contract("Hasher.update", params=["self", "b"], types={"self": "Hasher", "b": "bytes"}, modifies=["self.stream"],
                 ensures=["self.stream == old(self.stream) + b"])

    def sf_encv(e, st, a):
        my = a[1].t if len(a) > 1 else FALSE
        return V(Val.BytesV(encv(a[0].t, my)), "bytes")

    def unfold(fn, item_bytes):
        def sf(e, st, a):
            seq = e.elems(st, a[0]); i = vi(a[1].t)
            facts = [fn(seq, 0) == z3.Empty(BytesS),
                     z3.Implies(i >= 0, fn(seq, i + 1) == z3.Concat(fn(seq, i), item_bytes(e, st, seq, i)))]
            for f in facts:
                st.assume(f)
                if f.get_id() not in e._gf_ids:
                    e._gf_ids.add(f.get_id()); e.global_facts.append(f)
            return V(Val.BytesV(fn(seq, i)), "bytes")
        return sf

    def kv_bytes(e, st, seq, i):
        tup = z3.Select(st.field("$elems"), vr(seq[i]))
        return z3.Concat(encv(tup[0], FALSE), encv(tup[1], FALSE))
    reg.specfuns.update(
        encv=sf_encv,
        catenc=unfold(cat_enc, lambda e, st, seq, i: encv(seq[i], FALSE)),
        catkv=unfold(cat_kv, kv_bytes),
        pack_q=lambda e, st, a: V(Val.BytesV(pack_q(z3.If(Val.is_BoolV(a[0].t), z3.If(vb(a[0].t), 1, 0), vi(a[0].t)))), "bytes"),
        pack_d=lambda e, st, a: V(Val.BytesV(pack_d(vf(a[0].t))), "bytes"),
        pack_d_int=lambda e, st, a: V(Val.BytesV(pack_d_int(vi(a[0].t))), "bytes"),
        utf8=lambda e, st, a: V(Val.BytesV(utf8(vs(a[0].t))), "bytes"),
        is_meta=lambda e, st, a: V(BoolV(z3.And(Val.is_RefV(a[0].t), e.isinstance_term(st, a[0], ["Config"]),
                                                  e.truth(st, V(st.read("_meta", vr(st.read("__xpm__", vr(a[0].t)))), None)))), "bool"))

    rm = z3.Function("remove_meta_of", Val, Val)
    reg.specfuns["remove_meta_of"] = lambda e, st, a: V(rm(a[0].t), None)
    reg.contract("remove_meta", params=["value"], modifies=[], ensures=["result == remove_meta_of(value)"])
    eng.load("HashComputer._hashupdate", "core/objects.py")
    eng.load("HashComputer.update", "core/objects.py")
    eng.load("is_ignored", "core/objects.py", inline=True)
    eng.load("ConfigInformation.meta", "core/objects.py", inline=True)
    reg.contract("HashComputer._hashupdate", params=["self", "bytes"], types={"self": "HashComputer", "bytes": "bytes"},
                 ensures=[(("C01", "C03"), "self._hasher.stream == old(self._hasher.stream) + bytes")],
                 modifies=["self._hasher.stream"], effect="hashupdate")

    RAW = "ite(haskey(value.__xpm__.values, argument.name), lookup(value.__xpm__.values, argument.name), None)"
    AV = "getattr_dyn(value, argument.name)"
    SKIP = ("((argument.ignored and not (isclass(%s, Config) and %s.__xpm__._meta is False)) "
            "or (not isnone(argument.generator)) "
            "or (not argument.constant and ((not argument.required and isnone(argument.default) and isnone(%s)) "
            "    or (not isnone(argument.default) and py_equal(argument.default, remove_meta_of(%s))))) "
            "or (isclass(%s, Config) and bool(%s.__xpm__._meta)))") % (RAW, RAW, AV, AV, AV, AV)
    S, O = "self._hasher.stream", "old(self._hasher.stream)"
    c = reg.contracts["HashComputer.update"]
    c.update(dict(
        params=["self", "value", "myself"], defaults={"myself": "False"}, types={"self": "HashComputer", "myself": "bool"},
        no_replay=True,
        requires=["self._hasher is not None"],
        modifies=["elems(self.config_path.loops)", "*.stream"], effect="hash.update",
        ensures=[
            ("ASSUME", f"{S} == {O} + encv(value, myself)"),          # names the bytes appended by a (recursive) call
            ("ASSUME", "length(self.config_path.loops) == old(length(self.config_path.loops))"),   # push/pop of the cycle path are balanced
            # scalars: tag byte + fixed-width / utf-8 payload (the format constants are the pin)
            (("C01", "C03"), f"implies(isnone(value), {S} == {O} + HashComputer.NONE_ID)"),
            (("C01", "C03"), f"implies(isfloat(value), {S} == {O} + HashComputer.FLOAT_ID + pack_d(value))"),
            (("C01", "C03"), f"implies(isint(value) or isbool(value), {S} == {O} + HashComputer.INT_ID + pack_q(value))"),
            (("C01", "C03"), f"implies(isstr(value), {S} == {O} + HashComputer.STR_ID + utf8(value))"),
        ],
        ensures_locals=[
            # lists: tag, length of the list without meta-flagged configurations, then the elements in order
            (("C01", "C03"), f"implies(isclass(value, list), {S} == {O} + HashComputer.LIST_ID + pack_d_int(length(values)) + catenc(values, length(values)))"),
        ],
        raises={"NotImplementedError": {"when": []}, "Exception": {"when": []}, "struct.error": {"when": []}},
        loops={"x": {"invariants": [f"{S} == {O} + HashComputer.LIST_ID + pack_d_int(length(values)) + catenc(values, _i)"]},
               # the argument loop: what is outside the signature is not hashed (C02); what is inside is hashed as
               # name, NAME_ID, value (C03).  SKIP is written from the documentation: Meta/Option/Path parameters unless the
               # value is a configuration forced in with meta=False; generated values; a value equal to the declared default or
               # an optional left unset (never for constants); a sub-configuration flagged meta
               "argument": {"no_break": True, "body_post": [
                   ("C02", "implies(%s, no_effect('hash.update') and no_effect('hashupdate'))" % SKIP),
                   (("C02", "C03"), "implies(not %s, effect_count('hash.update') == 2 and effect_count('hashupdate') == 1 "
                                    "and effect_arg_nth('hash.update', 0, 1) == argument.name and effect_arg_nth('hashupdate', 0, 1) == HashComputer.NAME_ID "
                                    "and effect_arg_nth('hash.update', 1, 1) == %s)" % (SKIP, AV))]}},
    ))
    reg.contracts["HashComputer.update"]["locals"] = {"xpmtype": "ObjectType", "arguments": "list[Argument]"}
