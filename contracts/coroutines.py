"""Scheduler coroutines: aio_start, aio_submit, experiment.wait (awaitcompletion).  DESIGN 4.3 / Appendix C."""
import z3
from pyvc.vals import *      # noqa
from pyvc.state import V

job_path = z3.Function("job_path", Val, PathS)
job_donepath = z3.Function("job_donepath", Val, PathS)
job_failedpath = z3.Function("job_failedpath", Val, PathS)
job_lockpath = z3.Function("job_lockpath", Val, PathS)

SHARED = ["state", "unsatisfied", "currentstatus", "_set", "unfinishedJobs", "available", "failure_status",
          "$fs_kind", "$fs_text", "$fs_target"]


def declare(reg, eng):
    reg.klass("ProcOrState")
    reg.classes["JobState"]["bases"].append("ProcOrState")
    reg.klass("Process", ["ProcOrState"])
    reg.klass("Launcher", [], {"connector": "Connector"})
    reg.klass("Connector")
    reg.klass("AsyncFileLock")
    reg.classes["Job"]["fields"].update({"starttime": "opt:float", "endtime": "opt:float", "submittime": "opt:float",
                                         "dependents": "Dependents", "_process": None})

    def pathfn(fn):
        return lambda e, st, a: V(Val.PathV(fn(a[0].t)), "Path")
    reg.specfuns.update(job_path=pathfn(job_path), job_donepath=pathfn(job_donepath), job_failedpath=pathfn(job_failedpath),
                        job_lockpath=pathfn(job_lockpath))
    for prop, fn in (("path", "job_path"), ("jobpath", "job_path"), ("donepath", "job_donepath"), ("failedpath", "job_failedpath"),
                     ("lockpath", "job_lockpath")):
        reg.contract(f"Job.{prop}", params=["self"], returns="Path", modifies=[], ensures=[f"result == {fn}(self)"])
        eng.properties[f"Job.{prop}"] = True
    job_relpath = z3.Function("job_relpath", Val, PathS)
    reg.specfuns.update(job_relpath=pathfn(job_relpath))
    reg.contract("Job.relpath", params=["self"], returns="Path", modifies=[], ensures=["result == job_relpath(self)"])
    eng.properties["Job.relpath"] = True

    # ---- externals / opaque callees (assumed)
    reg.contract("Connector.lock", params=["self", "path"], fresh="AsyncFileLock", returns="AsyncFileLock", modifies=[])
    reg.contract("AsyncFileLock.__aenter__", params=["self"], modifies=[], effect="joblock.enter")
    reg.contract("AsyncFileLock.__aexit__", params=["self"], modifies=[], effect="joblock.exit")
    reg.contract("Listener.job_state", params=["self", "job"], modifies=[], raises={"Exception": {"when": [], "modifies": []}})
    reg.contract("Listener.job_submitted", params=["self", "job"], modifies=[], raises={"Exception": {"when": [], "modifies": []}})
    KEEP = "implies(old(exists_path(job_donepath(self))), exists_path(job_donepath(self)))"     # (it writes one file of the job directory)
    reg.contract("Job.add_notification_server", params=["self", "server"], types={"self": "Job"}, modifies=["fs"], ensures=[KEEP],
                 raises={"Exception": {"when": [], "modifies": ["fs"], "ensures": [KEEP]}})
    reg.contract("Job.aio_run", params=["self"], types={"self": "Job"}, returns="ProcOrState", awaits=True, effect="aio_run",
                 modifies=["fs", "self._process"], raises={"Exception": {"when": [], "modifies": ["fs"], "effect": "aio_run"}})
    reg.contract("Job.aio_process", params=["self"], types={"self": "Job"}, returns="opt:Process", awaits=True, effect="aio_process",
                 modifies=[], raises={"Exception": {"when": [], "modifies": []}})
    reg.contract("ProcOrState.aio_code", params=["self"], returns="opt:int", awaits=True, effect="aio_code", modifies=[],
                 raises={"JobError": {"when": [], "modifies": []}, "Exception": {"when": [], "modifies": []}})
    reg.contract("Dependency.lock", params=["self"], types={"self": "Dependency"}, fresh="Lock", returns="Lock", modifies=[],
                 ensures=["result._level == 0", "result.detached == False", ("ASSUME", "result.ghost_held == False")])

    # ---- Locks as a context manager (Lock.__enter__/__exit__ specialised to the receiver class Locks;
    #      justified by Lock.acquire / Lock.release / Locks._release, which are proved under C08/C09)
    eng.load("Lock.__init__", "locking.py", inline=True)
    eng.load("Locks.__init__", "locking.py", inline=True)
    reg.contract("Locks.__enter__", params=["self"], types={"self": "Locks"}, returns="Locks",
                 requires=["self._level == 0", "length(self.locks) == 0"],
                 ensures=["result is self", "self._level == 1", "length(self.locks) == 0"], modifies=["self._level"])
    reg.contract("Locks.__exit__", params=["self"], types={"self": "Locks"}, effect="locks.exit",
                 ensures=["forall(k, 0, length(self.locks), implies(not old(at(self.locks, k).detached) and old(at(self.locks, k)._level) == 1, at(self.locks, k)._level == 0))"],
                 modifies=["*._level", "*.available", "*.total", "*.cache", "fs"])

    # ---- closed world of dependencies: Dependency is abstract (status / lock raise NotImplementedError); the tree defines exactly
    #      these two subclasses (checked against the class definitions of the tree on every run).  A call on a receiver of static
    #      type Dependency is split over them, so that "a lock that can refuse belongs to a token dependency, and a token
    #      dependency never reports FAIL" is derived from the real bodies instead of being assumed.
    reg.close_world("Dependency", ["JobDependency", "CounterTokenDependency"])
    eng.load("JobDependency.lock", "scheduler/base.py")
    eng.load("JobLock.__init__", "scheduler/base.py", inline=True)
    eng.load("JobLock.acquire", "locking.py", qualname="Lock.acquire")       # the inherited body, verified for a JobLock receiver
    reg.contract("JobDependency.lock", params=["self"], types={"self": "JobDependency"}, returns="JobLock", modifies=[],
                 ensures=["isfresh(result)", "result._level == 0", "result.detached == False", "result.job is self.origin",
                          ("ASSUME", "result.ghost_held == False")])
    reg.contract("JobLock.acquire", params=["self"], types={"self": "JobLock"}, returns="JobLock", effect="lock.acquire",
                 requires=["isint(self._level)"],
                 # a job lock never refuses (no LockError outcome is declared: raising one would fail `noraise`)
                 ensures=["result is self", "implies(old(self._level) == 0, self._level == 1)",
                          "implies(old(self._level) != 0, self._level == old(self._level))",
                          ("ASSUME", "implies(old(self._level) == 0, self.ghost_held == True)"),
                          ("ASSUME", "implies(old(self._level) != 0, self.ghost_held == old(self.ghost_held))")],
                 modifies=["self._level", "self.ghost_held"])
    # R-ready (assumed environment fact, DESIGN section 11): while a job is READY nobody else writes another state to it.  The only
    # foreign writer of Job.state is Job.dependencychanged, which writes READY, or ERROR on a FAIL status; every job dependency
    # of a READY job is DONE (final, R-final) and token dependencies never report FAIL.
    R_READY = "implies(old(job.state) == JobState.READY, job.state == JobState.READY)"
    eng.load("Scheduler.aio_start", "scheduler/base.py")
    HELD = ("length(locks.locks) == %s and forall(k, 0, length(locks.locks), at(locks.locks, k)._level == 1 and not at(locks.locks, k).detached "
            "and at(locks.locks, k).ghost_held)")
    reg.contract("Scheduler.aio_start", params=["self", "job"], types={"self": "Scheduler", "job": "Job"},
                 returns="opt:JobState", awaits=True, no_replay=True,
                 requires=["not isnone(self.xp.central)"],
                 ensures=[
                     "not isnone(result)",
                     # starting a job does not make it final behind the back of aio_submit (which writes the returned state)
                     (("C06", "C07"), R_READY),
                     (("C04", "C06", "C07"), "implies(effect('aio_code'), (result == JobState.DONE) == (effect_result('aio_code') == 0 or "
                             "(isnone(effect_result('aio_code')) and at_effect('aio_code', isfile(job_donepath(job)) or (isfile(job_failedpath(job)) and parses_int(fs_read(job_failedpath(job))) "
                             "and int(fs_read(job_failedpath(job))) == 0)))))"),
                     (("C04", "C06", "C07"), "implies(result == JobState.DONE and not effect('aio_code'), effect('aio_run') and effect_result('aio_run') == JobState.DONE)"),
                     ("C06", "implies(not effect('aio_run'), result == JobState.WAITING)"),
                     ("C05", "effect_count('aio_run') <= 1"),
                     ("C09", "effect_count('locks.exit') == 1"),
                     ("C09", "effect_before('lock.acquire', 'locks.exit')"),
                 ],
                 effect_guards={# leaving the block releases every lock of the group: each of them must be a holding that was really taken
                                # (a refused token lock must not be released: that would delete somebody else's token file)
                                "locks.exit": [(("C08", "C09"), "forall(k, 0, length(locks.locks), at(locks.locks, k).ghost_held)")],
                                "aio_run": [(("C04", "C08"), HELD % "length(job.dependencies)"),
                                            ("C05", "effect('joblock.enter') and not effect('joblock.exit')")]},
                 raises={"AssertionError": {"when": [], "ensures": ["no_effect('lock.acquire')", "no_effect('aio_run')"]}},
                 interference={"shared": SHARED, "rely": [R_READY], "guarantee": []},
                 modifies=None,
                 loops={"dependency": {"invariants": [HELD % "_i", R_READY]}})

    # ------------------------------------------------------------------ aio_submit
    xp_jobspath = z3.Function("xp_jobspath", Val, PathS)
    reg.specfuns.update(xp_jobspath=pathfn(xp_jobspath))
    reg.contract("experiment.current", params=[], returns="experiment", modifies=[])
    reg.contract("experiment.jobspath", params=["self"], returns="Path", modifies=[], ensures=["result == xp_jobspath(self)"])
    eng.properties["experiment.jobspath"] = True
    reg.contract("experiment.alt_jobspaths", params=["self"], returns="list[Path]", fresh="list", modifies=[])
    eng.properties["experiment.alt_jobspaths"] = True
    reg.contract("asyncio.Event", params=[], fresh="Event", returns="Event", modifies=[], ensures=["result._set == False"])
    reg.contract("asyncThreadcheck", params=["name", "func"], awaits=True, modifies=[], effect="threadcheck")
    reg.contract("Mutex.__enter__", params=["self"], modifies=[])
    reg.contract("Mutex.__exit__", params=["self"], modifies=[])
    eng.load("Dependents.add", "scheduler/dependencies.py", inline=True)
    reg.contract("Dependents.__enter__", params=["self"], types={"self": "Dependents"}, returns="set[Dependency]", modifies=[],
                 ensures=["result is self._dependents"])
    reg.contract("Dependents.__exit__", params=["self"], modifies=[])

    START_MODS = ["*.available", "*.total", "*.cache", "fs", "*.starttime", "*._process", "*._level", "*.currentstatus",
                  "*.unsatisfied", "*.state", "*._set", "*.failure_status", "*.detached"]
    reg.contracts["Scheduler.aio_start"]["modifies"] = START_MODS
    reg.contracts["Scheduler.aio_start"]["effect"] = "aio_start"

    # rely at every await of aio_submit (what other coroutines / callbacks may do to *this* job):
    #  R-final: a finished state of the job is not changed by others  [guaranteed by Job.dependencychanged (C06 clause),
    #           the only foreign writer of Job.state: global-frame check]
    # R-marker (environment): nobody removes the success marker of a job while a scheduler works on it
    R_MARKER = "implies(old(exists_path(job_donepath(job))), exists_path(job_donepath(job)))"
    RELY = ["implies(old(job.state).finished(), job.state == old(job.state))", R_READY, R_MARKER,
            "job.identifier == old(job.identifier)"]
    eng.load("Scheduler.aio_submit", "scheduler/base.py")
    reg.contract("Scheduler.aio_submit", unreachable_ok=['return JobState.ERROR', 'if state is None:   [never true]'], params=["self", "job"], types={"self": "Scheduler", "job": "Job"},
                 returns="JobState", awaits=True, no_replay=True,
                 requires=["not isnone(self.xp.central)", "isstr(job.identifier)",
                           "job.state == JobState.UNSCHEDULED"],      # a Job is submitted once, right after its construction
                 ensures=[
                     ("C06", "result == JobState.DONE or result == JobState.ERROR"),
                     ("C06", "result == job.state"),
                     # a job whose success marker already exists ends DONE, whatever happened to its dependencies meanwhile
                     # (stated from the moment the job has been linked into the experiment index: the writes before that point
                     #  touch the index only, but path disjointness is outside the path theory)
                     ("C06", "implies(at_effect('symlink_to', exists_path(job_donepath(job))), result == JobState.DONE)"),
                     ("C06", "effect_count('write:unfinishedJobs') == 1"),
                     ("C07", "implies(result != JobState.DONE, lookup(self.xp.failedJobs, job.identifier) is job)"),
                     ("C06", "implies(result == JobState.DONE, not haskey(self.xp.failedJobs, job.identifier) or "
                             "lookup(self.xp.failedJobs, job.identifier) is old(lookup(self.xp.failedJobs, job.identifier)))"),
                     ("C16", "effect('symlink_to') and effect_arg('symlink_to', 0) == p_joinp(effect_result('experiment.current').workdir / 'jobs', job_relpath(job)) "
                             "and effect_arg('symlink_to', 1) == job_path(job)"),
                 ],
                 effect_guards={
                     "aio_start": [(("C04", "C05", "C07"), "job.state == JobState.READY"),
                                   ("C05", "implies(effect('aio_process') and not isnone(effect_result('aio_process')), effect('aio_code'))")],
                     "notify_all": [("C06", "effect_count('write:unfinishedJobs') == 1")],
                     # every write site of Job.state: a final state is only replaced by a final state
                     # (documented exception: DONE -> RUNNING when a live recorded process is adopted)
                     "write:state": [(("C06", "C07"), "implies(_arg0.state.finished(), _arg1.finished() or _arg1 == JobState.RUNNING)"),
                                     # DONE is only ever written on evidence of success: the success marker exists, or the awaited
                                     # process returned 0, or aio_start reported DONE (a missing / unknown exit code is a failure)
                                     (("C04", "C06", "C07"), "implies(_arg1 == JobState.DONE, exists_path(job_donepath(_arg0)) or "
                                                      "(effect_here('aio_code') and effect_result('aio_code') == 0) or "
                                                      "(effect_here('aio_start') and effect_result('aio_start') == JobState.DONE))")],
                 },
                 raises={"Exception": {"when": []}},
                 interference={"shared": SHARED, "rely": RELY, "guarantee": []},
                 modifies=None, track_writes=["unfinishedJobs", "state"],
                 loops={"while": {"invariants": ["implies(at_effect('symlink_to', exists_path(job_donepath(job))), job.state == JobState.DONE)"]},
                        "dependency#1": {"invariants": [
                            # registration never undercounts: every dependency not yet examined is still counted as unsatisfied
                            # (so the counter cannot reach 0 - and the job become READY - before all of them were examined)
                            "job.unsatisfied >= length(job.dependencies) - _i"]},
                        "dependency#2": {"no_break": True,
                                       "body_post": [("C07", "effect('call_soon') and bm_self(effect_arg('call_soon', 1)) is dependency")]}})
    reg.contracts["experiment.current"]["effect"] = "experiment.current"

    # ------------------------------------------------------------------ experiment.wait (awaitcompletion), Scheduler.submit
    eng.load("experiment.wait.awaitcompletion", "scheduler/base.py", qualname="experiment.wait.awaitcompletion")
    reg.classes["Job"]["fields"].update({"stderr": "Path"})
    reg.contract("experiment.wait.awaitcompletion", params=[], closure={"self": "experiment"}, awaits=True, no_replay=True,
                 requires=["isint(self.unfinishedJobs)", "isint(self.taskOutputQueueSize)"],
                 # returns only once every registered job is final (or the experiment was asked to stop) and nothing failed
                 ensures=[(("C06", "C07"), "self.exitMode or (self.unfinishedJobs == 0 and self.taskOutputQueueSize == 0)"),
                          ("C07", "length(self.failedJobs) == 0")],
                 raises={"FailedExperiment": {"when": [("C07", "length(self.failedJobs) > 0"),
                                                       ("C06", "self.exitMode or (self.unfinishedJobs == 0 and self.taskOutputQueueSize == 0)")]},
                         "AssertionError": {"when": ["isnone(self.central)"]}},
                 interference={"shared": ["unfinishedJobs", "taskOutputQueueSize", "exitMode", "failure_status", "state"], "rely": [], "guarantee": []},
                 modifies=None)

    eng.load("Scheduler.submit", "scheduler/base.py")
    reg.klass("Future", [], {"value": None})
    reg.contract("asyncio.run_coroutine_threadsafe", params=["coro", "loop"], fresh="Future", returns="Future", modifies=[],
                 ensures=["result.value is coro"])       # the coroutine call is evaluated through its contract (its effects are those of the scheduled run)
    reg.contract("Future.result", params=["self"], types={"self": "Future"}, modifies=[], ensures=["result is self.value"])
    reg.contracts["Scheduler.aio_submit"]["effect"] = "aio_submit"
    reg.contracts["Scheduler.aio_registerJob"]["effect"] = "registerJob"
    reg.contracts["Scheduler.aio_registerJob"]["returns"] = "opt:Job"
    reg.contract("Scheduler.submit", params=["self", "job"], types={"self": "Scheduler", "job": "Job"}, returns="opt:Job", no_replay=True,
                 requires=["isint(self.xp.unfinishedJobs)", "self.exitmode == False", "isstr(job.identifier)", "not isnone(self.xp.central)",
                           "job.state == JobState.UNSCHEDULED"],
                 ensures=[("C05", "effect_count('registerJob') == 1"),
                          ("C05", "implies(not isnone(result), no_effect('aio_submit') and result is effect_result('registerJob'))"),
                          ("C05", "implies(isnone(result), effect_count('aio_submit') == 1 and isnone(effect_result('registerJob')))")],
                 raises={"AssertionError": {"when": []}, "Exception": {"when": []}},
                 modifies=None)
    declare_notify(reg, eng)


def declare_notify(reg, eng):
    """Token.aio_notify (C09 / C06): a release re-checks *every* waiting dependency of the token (each one is scheduled on its loop);
    the inner `check` closure is handed to the loop as a value.  CounterToken.create (C08): one token object per name and process."""
    reg.contracts["Token.aio_notify"].update(dict(
        no_replay=True, modifies=[], effect="notify",
        ensures=[("C09", "reached_loop('_dependency')")],
        loops={"_dependency": {"no_break": True, "body_post": [
            ("C09", "effect_count('call_soon') == 1 and effect_arg('call_soon', 2) is _dependency and effect_arg('call_soon', 0) is _dependency.loop")]}}))
    eng.load("CounterToken.create", "tokens.py")
    reg.klass("TokenRegistry", [], {})
    reg.contract("CounterToken", params=["name", "path", "count"], fresh="CounterToken", returns="CounterToken", modifies=["fs"], effect="CounterToken.new",
                 ensures=["result.total == count", "result.path == path"])
    reg.consts["CounterToken.TOKENS"] = ("term", __import__("pyvc.state", fromlist=["V"]).V(__import__("pyvc.vals", fromlist=["RefV"]).RefV(-777010), "dict[str,CounterToken]"))
    reg.contract("CounterToken.create", params=["name", "path", "count"], types={"name": "str", "path": "Path", "count": "int"}, returns="CounterToken", no_replay=True,
                 # a name registered in this process always yields the registered object: two objects on one directory would not
                 # exclude each other (their thread locks differ and fcntl locks are per process)
                 ensures=[("C08", "implies(old(haskey(CounterToken.TOKENS, name)) and bool(old(lookup(CounterToken.TOKENS, name))), "
                                  "result is old(lookup(CounterToken.TOKENS, name)) and no_effect('CounterToken.new'))"),
                          ("C08", "lookup(CounterToken.TOKENS, name) is result")],
                 modifies=None)
